//! C04 — loading arbitrary text returns a rule or an error, never a panic / overflow / loop.
//! The workload runs in a child process with a watchdog thread, so that a hang or an abort is
//! attributed to the input that caused it.

use std::process::Command;
use std::time::Duration;

use serde_json::{json, Value as J};
use serde_yaml::Value as Y;
use tau_engine::core::parser::{parse_identifier, IdentifierParser, Tokeniser};

use crate::eng::{self, Load};
use crate::prng::{fnv, Rng};
use crate::run::{clear_case, finish, par_shards, set_case, start_watchdog, Ctx, Meta, Report};

pub const COND_SYMS: &[&str] = &["A", "B", "and ", "or ", "not ", "(", ")", ",", "==", "<", ">=", "-", ".", "1", " ", "é", "all(", "of(", "int(", "str(", "not("];
pub const PAT_SYMS: &[&str] = &["a", "i", "*", "?", "\"", "'", ">", "<", "=", ".", "1", "-", "é", "(", "[", "\\", "\u{201c}", "\u{201d}", "\u{2018}"];
/// regular-expression syntax: what a `?` pattern hands to the regex compiler, alone and (for lists)
/// again as a member of a regex set
pub const REGEX_SYMS: &[&str] = &["a", "\\", "0", "1", "{", "}", "(", ")", "[", "]", "|", "*", "+", "?", ".", "^", "$", "w", "x", ","];
pub const KEY_SYMS: &[&str] = &["a", " ", ".", "[", "]", "0", "(", ")", ",", "all(", "of(", "not(", "int(", "str(", "é", "#"];

#[derive(Debug, Clone, PartialEq)]
pub enum Outcome {
    Accepted,
    Rejected(String),
    Panicked(eng::Panic),
}

fn class_of_err(e: &str) -> String {
    // error class: text up to the first ':' after the generic prefix, digits removed
    let e = e.replace("an invalid rule was provided: ", "");
    e.chars().filter(|c| !c.is_ascii_digit()).take(48).collect()
}

fn rule_with_condition(cond: &str) -> String {
    let mut root = serde_yaml::Mapping::new();
    let mut det = serde_yaml::Mapping::new();
    let mut a = serde_yaml::Mapping::new();
    a.insert(Y::String("f".into()), Y::String("v".into()));
    det.insert(Y::String("A".into()), Y::Mapping(a.clone()));
    det.insert(Y::String("B".into()), Y::Mapping(a));
    det.insert(Y::String("condition".into()), Y::String(cond.to_string()));
    root.insert(Y::String("detection".into()), Y::Mapping(det));
    root.insert(Y::String("true_positives".into()), Y::Sequence(vec![]));
    root.insert(Y::String("true_negatives".into()), Y::Sequence(vec![]));
    serde_yaml::to_string(&Y::Mapping(root)).unwrap_or_default()
}

fn rule_with_identifier(ident: Y) -> Y {
    let mut root = serde_yaml::Mapping::new();
    let mut det = serde_yaml::Mapping::new();
    det.insert(Y::String("A".into()), ident);
    det.insert(Y::String("condition".into()), Y::String("A".into()));
    root.insert(Y::String("detection".into()), Y::Mapping(det));
    root.insert(Y::String("true_positives".into()), Y::Sequence(vec![]));
    root.insert(Y::String("true_negatives".into()), Y::Sequence(vec![]));
    Y::Mapping(root)
}

fn one_entry(k: Y, v: Y) -> Y {
    let mut m = serde_yaml::Mapping::new();
    m.insert(k, v);
    Y::Mapping(m)
}

fn merge(outs: Vec<Result<Result<(), String>, eng::Panic>>) -> Outcome {
    let mut acc = Outcome::Accepted;
    for o in outs {
        match o {
            Err(p) => return Outcome::Panicked(p),
            Ok(Err(e)) => {
                if acc == Outcome::Accepted {
                    acc = Outcome::Rejected(class_of_err(&e));
                }
            }
            Ok(Ok(())) => {}
        }
    }
    acc
}

fn load_value_outcome(v: Y) -> Result<Result<(), String>, eng::Panic> {
    match eng::load_value(v) {
        Ok(Load::Ok(_)) => Ok(Ok(())),
        Ok(Load::Err(e)) => Ok(Err(e)),
        Err(p) => Err(p),
    }
}

fn load_text_outcome(t: &str) -> Result<Result<(), String>, eng::Panic> {
    match eng::load(t) {
        Ok(Load::Ok(_)) => Ok(Ok(())),
        Ok(Load::Err(e)) => Ok(Err(e)),
        Err(p) => Err(p),
    }
}

/// run one input through one layer
pub fn exec_layer(layer: &str, input: &str) -> Outcome {
    match layer {
        "cond" => {
            let s = input.to_string();
            let a = eng::guard(|| s.tokenise().map(|_| ()).map_err(|e| format!("{}", e)));
            let b = load_text_outcome(&rule_with_condition(input));
            merge(vec![b, a])
        }
        "pattern" => {
            let s = input.to_string();
            let s2 = format!("i{}", input);
            let a = eng::guard(|| s.into_identifier().map(|_| ()).map_err(|e| format!("{}", e)));
            let a2 = eng::guard(|| s2.into_identifier().map(|_| ()).map_err(|e| format!("{}", e)));
            let scalar = one_entry(Y::String("k".into()), Y::String(input.to_string()));
            let list = one_entry(Y::String("k".into()), Y::Sequence(vec![Y::String(input.to_string()), Y::String("x".into()), Y::String(format!("i{}", input))]));
            let quant = one_entry(Y::String("all(k)".into()), Y::Sequence(vec![Y::String(input.to_string()), Y::String("*y*".into())]));
            let cast = one_entry(Y::String("str(k)".into()), Y::String(input.to_string()));
            let mut outs = vec![a, a2];
            for v in [scalar, list, quant, cast] {
                let vv = v.clone();
                outs.push(eng::guard(move || parse_identifier(&vv).map(|_| ()).map_err(|e| format!("{}", e))));
                outs.push(load_value_outcome(rule_with_identifier(v)));
            }
            merge(outs)
        }
        "regex" => {
            // the text after `?`: alone, with the i prefix, and as a member of lists of regexes (which
            // the loader compiles a second time, as a set), also under a quantifier and a cast
            let re = |p: &str, t: &str| Y::String(format!("{}?{}", p, t));
            let mut outs = vec![];
            for v in [
                one_entry(Y::String("k".into()), re("", input)),
                one_entry(Y::String("k".into()), re("i", input)),
                one_entry(Y::String("k".into()), Y::Sequence(vec![re("", input), re("", "b+")])),
                one_entry(Y::String("k".into()), Y::Sequence(vec![re("i", "b+"), re("i", input)])),
                one_entry(Y::String("all(k)".into()), Y::Sequence(vec![re("", input), re("", "b+"), Y::String("*c*".into())])),
                one_entry(Y::String("str(k)".into()), Y::Sequence(vec![re("", input), re("", input), re("i", input)])),
                one_entry(Y::String("n".into()), one_entry(Y::String("of(k, 1)".into()), Y::Sequence(vec![re("i", input), re("i", "b+")]))),
            ] {
                outs.push(load_value_outcome(rule_with_identifier(v)));
            }
            merge(outs)
        }
        "key" => {
            let mut outs = vec![];
            for v in [Y::String("x".into()), Y::Sequence(vec![Y::String("x".into()), Y::String("y".into())]), Y::Number(1.into()), one_entry(Y::String("b".into()), Y::String("x".into()))] {
                let e = one_entry(Y::String(input.to_string()), v);
                let ee = e.clone();
                outs.push(eng::guard(move || parse_identifier(&ee).map(|_| ()).map_err(|e| format!("{}", e))));
                outs.push(load_value_outcome(rule_with_identifier(e)));
            }
            merge(outs)
        }
        "yaml-text" => merge(vec![load_text_outcome(input)]),
        "yaml-value" => match serde_yaml::from_str::<Y>(input) {
            Ok(v) => merge(vec![load_value_outcome(v), load_text_outcome(input)]),
            Err(_) => Outcome::Rejected("not yaml".into()),
        },
        _ => Outcome::Rejected("unknown layer".into()),
    }
}

fn record(rep: &mut Report, layer: &str, input: &str) {
    set_case(layer, input);
    let o = exec_layer(layer, input);
    clear_case();
    rep.evaluations += 1;
    match o {
        Outcome::Accepted => {
            rep.count(&format!("{}.accepted", layer));
            rep.nontrivial_key(&format!("{}|ok|{}", layer, input));
        }
        Outcome::Rejected(c) => {
            rep.count(&format!("{}.rejected", layer));
            rep.nontrivial_key(&format!("{}|{}|{}", layer, c, input.chars().count().min(8)));
        }
        Outcome::Panicked(p) => {
            rep.count(&format!("{}.panicked", layer));
            rep.violation("panic", &format!("c04-panic:{}", p.sig()), &format!("loading panicked at {} on {} input {:?}", p.sig(), layer, input.chars().take(120).collect::<String>()), json!({"layer": layer, "input": input, "panic": p.sig()}));
        }
    }
}

fn enumerate(rep: &mut Report, ctx: &Ctx, layer: &str, syms: &[&str], len: usize, stripe: usize, stripes: usize) {
    // all sequences of exactly `len` symbols, striped over shards by index
    let n = syms.len();
    let total = n.pow(len as u32);
    let mut idx = stripe;
    while idx < total {
        if idx % 4096 == stripe % 4096 && ctx.expired() {
            rep.truncated = true;
            return;
        }
        let mut s = String::new();
        let mut c = idx;
        for _ in 0..len {
            s.push_str(syms[c % n]);
            c /= n;
        }
        record(rep, layer, &s);
        idx += stripes;
    }
}

pub const HOSTILE_STRS: &[&str] = &[
    "", " ", "\"", "'", "i\"", "i'", "''", "\"\"", "i", "*", "**", "***", "i*", "?", "i?", "?(", "?[", "?*", "=", ">", ">=", "<", "<=", "=-", ">.", "=1.", "=.5", "=1e3", ">9223372036854775808", "<-9223372036854775809", "=١", "-", ".", "..", "-.", "1.2.3",
    "and", "and ", "or ", "not ", "not", "all(", "of(", "of(A", "of(A,", "of(A, ", "of(A, 1", "of(A, -1)", "of(A, 99999999999999999999)", "int(", "int()", "int(A", "str(A)", "flt(A) ==", "A and", "A and ", "and A", "A or or B", "((((", "))))", "(A", "A)", "()", "( )", "A == B", "1 == 1", "1", "1.0", "A and 1", "A or int(f)", "not 1", "not int(f)", "int(f) == int(g) == 1", "A\tand\tB", "A\u{a0}and B", "A and\u{3000}B", "é", "Aé", "andé", "and é", "é and A", "i̇", "\u{feff}A", "A\0B", "#", "#A", "A[", "A[0]", "A]", "a.b", "A,B", "all(A,B)", "all(all(A))", "not(A)", "not(f) and A", "string(f) == str(g)", "int(f)==1", "1<int(f)", "1 < 2", "A and (B", "A and B)", "(A) and (B)", "not not not A",
];

pub fn random_string(rng: &mut Rng, pool: &[&str], max_syms: usize) -> String {
    let n = 1 + rng.below(max_syms);
    let mut s = String::new();
    for _ in 0..n {
        if rng.chance(15) {
            s.push_str(rng.pick_str(HOSTILE_STRS));
        } else if rng.chance(8) {
            s.push(*rng.pick(&['é', '日', 'İ', '\u{307}', '\u{a0}', '\u{2028}', '\t', '\n', '\u{b}', '٣', '½', '\u{1f600}', '\u{201c}', '\u{201d}', '\u{2018}', '\u{2019}', '\u{ab}', '\u{bb}', '\u{ff02}', '\u{2033}', '０', '²']));
        } else {
            s.push_str(rng.pick_str(pool));
        }
    }
    s
}

pub fn random_yaml(rng: &mut Rng, depth: usize) -> Y {
    let w_container = if depth >= 4 { 0 } else { 14 };
    match rng.weighted(&[6, 6, 10, 6, 30, w_container, w_container, 3]) {
        0 => Y::Null,
        1 => Y::Bool(rng.chance(50)),
        2 => match rng.below(6) {
            0 => Y::Number(0.into()),
            1 => Y::Number((-1i64).into()),
            2 => Y::Number(u64::MAX.into()),
            3 => Y::Number(i64::MIN.into()),
            4 => Y::Number((rng.below(10) as u64).into()),
            _ => Y::Number((i64::MAX as u64 + 1).into()),
        },
        3 => Y::Number((*rng.pick(&[0.5, -0.0, f64::NAN, f64::INFINITY, f64::NEG_INFINITY, 1e300, 5e-324])).into()),
        4 => Y::String(if rng.chance(50) { rng.pick(HOSTILE_STRS).to_string() } else { random_string(rng, PAT_SYMS, 4) }),
        5 => Y::Sequence((0..rng.below(4)).map(|_| random_yaml(rng, depth + 1)).collect()),
        6 => {
            let mut m = serde_yaml::Mapping::new();
            for _ in 0..rng.below(4) {
                let k = if rng.chance(75) { Y::String(if rng.chance(50) { rng.pick(&["k", "all(k)", "of(k, 1)", "not(k)", "int(k)", "str(k)", "flt(k)", "a.b", "a[0]", "condition", "of(k, 0)"]).to_string() } else { random_string(rng, KEY_SYMS, 4) }) } else { random_yaml(rng, depth + 3) };
                m.insert(k, random_yaml(rng, depth + 1));
            }
            Y::Mapping(m)
        }
        _ => Y::Tagged(Box::new(serde_yaml::value::TaggedValue { tag: serde_yaml::value::Tag::new("t"), value: random_yaml(rng, depth + 2) })),
    }
}

/// a rule-shaped value in which a few positions hold arbitrary YAML
pub fn random_rule_value(rng: &mut Rng) -> Y {
    let mut det = serde_yaml::Mapping::new();
    let nid = rng.below(4);
    for i in 0..nid {
        let v = if rng.chance(50) {
            random_yaml(rng, 1)
        } else {
            let mut m = serde_yaml::Mapping::new();
            for _ in 0..1 + rng.below(3) {
                m.insert(Y::String(rng.pick(&["k", "all(k)", "of(k, 2)", "not(k)", "int(k)", "str(k)", "flt(k)", "j.x", "a[1]"]).to_string()), random_yaml(rng, 2));
            }
            if rng.chance(25) {
                Y::Sequence(vec![Y::Mapping(m), random_yaml(rng, 2)])
            } else {
                Y::Mapping(m)
            }
        };
        det.insert(Y::String(format!("I{}", i)), v);
    }
    if rng.chance(90) {
        let c = if rng.chance(70) {
            let mut pool: Vec<&str> = COND_SYMS.to_vec();
            pool.extend(["I0", "I1", "I2", "I0", "I1"]);
            Y::String(random_string(rng, &pool, 7))
        } else {
            random_yaml(rng, 2)
        };
        det.insert(Y::String("condition".into()), c);
    }
    let mut root = serde_yaml::Mapping::new();
    let detv = if rng.chance(92) { Y::Mapping(det) } else { random_yaml(rng, 1) };
    if rng.chance(95) {
        root.insert(Y::String("detection".into()), detv);
    }
    for k in ["true_positives", "true_negatives"] {
        if rng.chance(92) {
            root.insert(Y::String(k.into()), if rng.chance(70) { Y::Sequence((0..rng.below(3)).map(|_| random_yaml(rng, 2)).collect()) } else { random_yaml(rng, 1) });
        }
    }
    if rng.chance(10) {
        root.insert(Y::String("optimised".into()), random_yaml(rng, 3));
    }
    if rng.chance(5) {
        root.insert(random_yaml(rng, 3), random_yaml(rng, 2));
    }
    if rng.chance(96) {
        Y::Mapping(root)
    } else {
        random_yaml(rng, 0)
    }
}

/// replace one randomly chosen node of `v` (any depth) by arbitrary YAML
pub fn mutate_value(rng: &mut Rng, v: &mut Y, depth: usize) {
    let descend = match v {
        Y::Mapping(m) => !m.is_empty() && rng.chance(75),
        Y::Sequence(s) => !s.is_empty() && rng.chance(75),
        _ => false,
    };
    if !descend || depth > 6 {
        *v = random_yaml(rng, 2);
        return;
    }
    match v {
        Y::Mapping(m) => {
            let i = rng.below(m.len());
            let key = m.keys().nth(i).cloned().unwrap();
            if rng.chance(15) {
                // change the key instead
                let val = m.remove(&key).unwrap();
                let nk = if rng.chance(70) { Y::String(random_string(rng, KEY_SYMS, 5)) } else { random_yaml(rng, 3) };
                m.insert(nk, val);
            } else if let Some(x) = m.get_mut(&key) {
                mutate_value(rng, x, depth + 1);
            }
        }
        Y::Sequence(s) => {
            let i = rng.below(s.len());
            mutate_value(rng, &mut s[i], depth + 1);
        }
        _ => {}
    }
}

pub fn corpus() -> Vec<String> {
    let mut out = vec![];
    if let Ok(rd) = std::fs::read_dir("/repo/tests/rules") {
        let mut paths: Vec<_> = rd.filter_map(|e| e.ok()).map(|e| e.path()).collect();
        paths.sort();
        for p in paths {
            if let Ok(t) = std::fs::read_to_string(&p) {
                out.push(t);
            }
        }
    }
    if out.is_empty() {
        out.push("detection:\n  A:\n    foo: bar\n  condition: A\ntrue_positives: []\ntrue_negatives: []\n".into());
    }
    out
}

pub fn mutate_text(rng: &mut Rng, t: &str) -> String {
    let mut b: Vec<u8> = t.as_bytes().to_vec();
    for _ in 0..1 + rng.below(4) {
        if b.is_empty() {
            break;
        }
        let i = rng.below(b.len());
        match rng.below(10) {
            0 => b[i] ^= 1 << rng.below(8),
            1 => {
                b.remove(i);
            }
            2 => b.truncate(i),
            3 => {
                let ins: &[u8] = rng.pick_str(&["\t", "&a ", "*a", "<<: ", "\u{feff}", "\r\n", "---\n", "!t ", "\"", "'", ": ", "- ", "? ", "|\n", ">\n", "{", "[", "#", "\0", "%", "@", "`"]).as_bytes();
                for (k, x) in ins.iter().enumerate() {
                    b.insert(i + k, *x);
                }
            }
            4 => {
                // duplicate a line
                let s = String::from_utf8_lossy(&b).to_string();
                let lines: Vec<&str> = s.lines().collect();
                if !lines.is_empty() {
                    let l = rng.below(lines.len());
                    let mut n: Vec<String> = lines.iter().map(|x| x.to_string()).collect();
                    n.insert(l, lines[l].to_string());
                    b = n.join("\n").into_bytes();
                }
            }
            5 => b[i] = *rng.pick(b" :-[]{}#&*!|>'\"%@`,?\n\t"),
            6 => {
                let ins = rng.pick_str(HOSTILE_STRS).as_bytes();
                for (k, x) in ins.iter().enumerate() {
                    b.insert(i + k, *x);
                }
            }
            7 => {
                // deepen indentation of the rest
                let s = String::from_utf8_lossy(&b[i..]).replace('\n', "\n  ");
                b.truncate(i);
                b.extend(s.bytes());
            }
            _ => {
                let j = rng.below(b.len());
                b.swap(i, j);
            }
        }
    }
    String::from_utf8_lossy(&b).to_string()
}

pub fn child(ctx: &Ctx) -> i32 {
    let cand = format!("{}/replays/C04/hang-candidate.json", ctx.verif_dir);
    let _ = std::fs::create_dir_all(format!("{}/replays/C04", ctx.verif_dir));
    let _ = std::fs::remove_file(&cand);
    start_watchdog(cand, Duration::from_secs(30));
    let maxlen = ctx.size(4, 5);
    let stripes = 16usize;
    let texts = corpus();
    let nshards = stripes * 4 + ctx.size(32, 128);
    let rep = par_shards(ctx, nshards, |shard| {
        let mut rep = Report::new();
        if shard < stripes * 4 {
            let (layer, syms) = [("cond", COND_SYMS), ("pattern", PAT_SYMS), ("key", KEY_SYMS), ("regex", REGEX_SYMS)][shard / stripes];
            // the regex layer compiles every input nine times: one symbol less
            for len in 0..=(if layer == "regex" { maxlen - 1 } else { maxlen }) {
                enumerate(&mut rep, ctx, layer, syms, len, shard % stripes, stripes);
            }
            if shard % stripes == 0 {
                for h in HOSTILE_STRS {
                    record(&mut rep, layer, h);
                }
                rep.sample(json!({"layer": layer, "alphabet": syms, "max_symbols": maxlen, "example_input": syms.iter().take(3).cloned().collect::<String>()}));
            }
        } else {
            let mut rng = Rng::new(ctx.seed, "C04", shard as u64);
            for _ in 0..ctx.size(2500, 20000) {
                if ctx.expired() {
                    rep.truncated = true;
                    break;
                }
                match rng.below(7) {
                    6 => {
                        // longer regex texts: escapes with several digits, counted repetitions
                        let t = if rng.chance(30) {
                            format!("{}{}{}", rng.pick_str(&["\\", "\\x", "\\u", "\\p", "\\P{", "(?", "[[:", "a{", "\\w{", "(a|b){", "\\pL{", ".{"]), rng.pick_str(&["0", "1", "033", "111", "7f", "{41}", "L", "Lu}", "i)", "alpha:]]", "2,3}", "10}", "100}", "1000}", "99999}", "1,}", ",1}"]), random_string(&mut rng, REGEX_SYMS, 3))
                        } else {
                            random_string(&mut rng, REGEX_SYMS, 9)
                        };
                        record(&mut rep, "regex", &t)
                    }
                    0 => record(&mut rep, "cond", &random_string(&mut rng, COND_SYMS, 16)),
                    1 => record(&mut rep, "pattern", &random_string(&mut rng, PAT_SYMS, 10)),
                    2 => record(&mut rep, "key", &random_string(&mut rng, KEY_SYMS, 8)),
                    3 | 4 => {
                        let v = if rng.chance(60) {
                            // a well-formed generated rule with one or two positions replaced
                            let ast = crate::gen::gen_rule(&mut rng, &crate::gen::GenCfg::default());
                            let mut v = ast.to_yaml_value();
                            for _ in 0..1 + rng.below(2) {
                                mutate_value(&mut rng, &mut v, 0);
                            }
                            v
                        } else {
                            random_rule_value(&mut rng)
                        };
                        let t = serde_yaml::to_string(&v).unwrap_or_default();
                        record(&mut rep, "yaml-value", &t);
                    }
                    _ => {
                        let ti = rng.below(texts.len());
                        let t = mutate_text(&mut rng, &texts[ti]);
                        record(&mut rep, "yaml-text", &t);
                    }
                }
            }
        }
        rep
    });
    let mut rep = rep;
    // nesting up to the property's bound (64) in every position that nests
    for d in [8usize, 16, 32, 48, 64] {
        let wrap = |open: &str, close: &str, core: &str| format!("{}{}{}", open.repeat(d), core, close.repeat(d));
        let rule = |ident: &str, cond: &str, tp: &str| format!("detection:\n  A: {}\n  condition: '{}'\ntrue_positives: {}\ntrue_negatives: []\n", ident, cond, tp);
        let nested_map = wrap("{k: ", "}", "v");
        let nested_seq = wrap("[", "]", "{k: v}");
        let inputs = vec![
            rule(&nested_map, "A", "[]"),
            rule(&nested_seq, "A", "[]"),
            rule(&format!("{{k: {}}}", wrap("[", "]", "v")), "A", "[]"),
            rule("{k: v}", &wrap("(", ")", "A"), "[]"),
            rule("{k: v}", &format!("{}A", "not ".repeat(d)), "[]"),
            rule("{k: v}", &format!("{}A{}", "(not ".repeat(d), ")".repeat(d)), "[]"),
            rule("{k: v}", &format!("A{}", " and A".repeat(d)), "[]"),
            rule("{k: v}", &format!("A{}", " or (A".repeat(d)) , "[]"),
            rule("{k: v}", "A", &format!("[{}]", wrap("[", "]", "1"))),
            rule("{k: v}", "A", &format!("[{}]", wrap("{a: ", "}", "1"))),
            rule(&format!("{{'{}': v}}", wrap("all(", ")", "k")), "A", "[]"),
            rule(&format!("{{'{}': v}}", wrap("(", ")", "k")), "A", "[]"),
            rule(&format!("{{k: '{}'}}", wrap("?(", ")", "a")), "A", "[]"),
        ];
        for t in inputs {
            record(&mut rep, "yaml-text", &t);
            rep.count("deep_nesting_inputs");
        }
        record(&mut rep, "cond", &wrap("(", ")", "A"));
        record(&mut rep, "cond", &wrap("all(", ")", "A"));
        record(&mut rep, "key", &wrap("not(", ")", "k"));
        record(&mut rep, "pattern", &wrap("?(", ")", "a"));
        record(&mut rep, "pattern", &"*".repeat(d));
        record(&mut rep, "pattern", &"i".repeat(d));
    }
    // regexes near the compiler's size limit: a member that compiles alone and a list of such
    // members, which is compiled again as one set
    for unit in ["\\w", "\\pL", "[a-z0-9]", "(ab|cd|ef)"] {
        for n in [20usize, 50, 100, 200, 300, 400, 1000, 3000] {
            if ctx.quick() && n > 400 {
                continue;
            }
            for members in [1usize, 2, 3, 8] {
                for pre in ["", "i"] {
                    let list: Vec<String> = (0..members).map(|j| format!("    - '{}?{}{{{}}}{}'\n", pre, unit, n, j)).collect();
                    let t = format!("detection:\n  A:\n    k:\n{}  condition: A\ntrue_positives: []\ntrue_negatives: []\n", list.concat());
                    record(&mut rep, "yaml-text", &t);
                    rep.count("big_regex_inputs");
                }
            }
        }
    }
    crate::regress::replay_witnesses(ctx, &mut rep);
    for l in ["cond", "pattern", "key", "regex", "yaml-value", "yaml-text"] {
        if rep.get(&format!("{}.accepted", l)) == 0 {
            rep.inconclusive.push(format!("no {} input was accepted by the loader: the workload never got past that layer", l));
        }
    }
    finish(
        ctx,
        rep,
        Meta {
            rule: format!("complete enumeration of every sequence of <= {} symbols over layer-specific alphabets (condition: {} symbols incl. keywords with their delimiters, a multi-byte letter, lone '-', '.'; pattern: {} symbols incl. typographic quotes; mapping key: {} symbols; regular expression after `?`: 20 symbols, one symbol shorter, each text loaded alone, i-prefixed and as a member of five kinds of list), each fed to the layer directly (tokenise / into_identifier / parse_identifier, feature core) and through a full rule load; a fixed list of {} degenerate strings; random longer strings with multi-byte and exotic whitespace characters; rule-shaped YAML values with arbitrary YAML kinds in every position (through from_value and from_str); byte-level mutations of the repository's rule files; regexes of 20..3000 repetitions of a class, alone and in lists of 2, 3, 8 (the list is compiled again as one set). Oracle: panic monitor (catch_unwind + panic hook) and a watchdog for hangs, in a child process. non-trivial = input that reached the engine's own layer, distinct by (layer, outcome class, input)", maxlen, COND_SYMS.len(), PAT_SYMS.len(), KEY_SYMS.len(), HOSTILE_STRS.len()),
            exhaustive: true,
            assumptions: vec!["nesting depth bounded (<= 8 here), native stack exhaustion out of scope as the property says".into(), "a hang is reported only after the same input also exceeds 120 s alone in a fresh process".into()],
            min_nontrivial: 1000,
            extra: json!({}),
        },
    )
}

/// run one (layer, input) from a file; used for hang confirmation and replay
pub fn one(path: &str) -> i32 {
    let Ok(text) = std::fs::read_to_string(path) else { return 2 };
    let Ok(v) = serde_json::from_str::<J>(&text) else { return 2 };
    let c = if v.get("case").is_some() { &v["case"] } else { &v };
    let (Some(layer), Some(input)) = (c["layer"].as_str(), c["input"].as_str()) else {
        println!("no layer/input in {}", path);
        return 2;
    };
    println!("layer={} input={:?}", layer, input);
    let o = exec_layer(layer, input);
    println!("outcome: {:?}", o);
    match o {
        Outcome::Panicked(_) => {
            println!("VIOLATION property=C04 replay={}", path);
            1
        }
        _ => 0,
    }
}

/// parent: run the workload in a child so that hangs and aborts can be attributed
pub fn run(ctx: &Ctx, prop_cmd: &str) -> i32 {
    let exe = std::env::current_exe().expect("own path");
    let status = Command::new(&exe)
        .arg(format!("{}-child", prop_cmd))
        .args(["--tier", if ctx.quick() { "quick" } else { "thorough" }, "--seed", &ctx.seed.to_string(), "--verif", &ctx.verif_dir, "--budget", &ctx.budget.as_secs().to_string()])
        .status();
    let prop = ctx.prop;
    let st = match status {
        Ok(s) => s,
        Err(e) => {
            println!("HARNESS-ERROR: cannot start worker process: {}", e);
            return 2;
        }
    };
    match st.code() {
        Some(3) => {
            // watchdog: confirm the stuck input alone, with a generous budget
            let cand = format!("{}/replays/{}/hang-candidate.json", ctx.verif_dir, prop);
            println!("re-running the stuck input alone (budget 120 s)");
            let mut child = match Command::new(&exe).arg(format!("{}-one", prop_cmd)).arg(&cand).spawn() {
                Ok(c) => c,
                Err(_) => return 2,
            };
            let t0 = std::time::Instant::now();
            loop {
                if let Ok(Some(_)) = child.try_wait() {
                    println!("INCONCLUSIVE: an input exceeded the 30 s watchdog under load but finished alone; see {}", cand);
                    return 2;
                }
                if t0.elapsed() > Duration::from_secs(120) {
                    let _ = child.kill();
                    let keep = format!("{}/replays/{}/hang-{:016x}.json", ctx.verif_dir, prop, fnv(&std::fs::read_to_string(&cand).unwrap_or_default()));
                    let _ = std::fs::copy(&cand, &keep);
                    println!("VIOLATION property={} replay={}", prop, keep);
                    println!("  what: input does not terminate (30 s under load, 120 s alone)");
                    return 1;
                }
                std::thread::sleep(Duration::from_millis(200));
            }
        }
        Some(c) => c,
        None => {
            // killed by a signal (abort / stack overflow): locate the input with a slow,
            // single-threaded re-run that records every case before executing it
            let prog = format!("{}/replays/{}/abort-progress.txt", ctx.verif_dir, prop);
            println!("worker process died by a signal; re-running single-threaded to locate the input");
            let _ = Command::new(&exe)
                .arg(format!("{}-child", prop_cmd))
                .args(["--tier", if ctx.quick() { "quick" } else { "thorough" }, "--seed", &ctx.seed.to_string(), "--verif", &ctx.verif_dir, "--threads", "1", "--budget", "900"])
                .env("TMON_PROGRESS", &prog)
                .status();
            let last = std::fs::read_to_string(&prog).unwrap_or_default();
            let (layer, input) = last.split_once('\n').unwrap_or(("?", ""));
            let keep = format!("{}/replays/{}/abort-{:016x}.json", ctx.verif_dir, prop, fnv(&last));
            let _ = std::fs::write(&keep, serde_json::to_string_pretty(&json!({"property": prop, "kind": "abort", "case": {"layer": layer, "input": input}})).unwrap());
            println!("VIOLATION property={} replay={}", prop, keep);
            println!("  what: the process aborted (signal) while loading/evaluating a {} input", layer);
            1
        }
    }
}
