//! C06 — three-valued connectives obey their truth tables (exhaustive enumeration of every
//! connective form x arity 1..4 x {T,F,M}^k x thresholds 0..k+1).

use serde_json::json;

use crate::ast::*;
use crate::dval::{to_yaml_map, DVal};
use crate::eng::{self, Sw};
use crate::mon;
use crate::refi::{self, all3, and_ordered, not3, of3, or3, ts_name, F, M, T, TS};
use crate::run::{finish, par_shards, Ctx, Meta, Report};

#[derive(Clone, Debug, PartialEq)]
pub enum Form {
    AndChain,
    OrChain,
    Mapping,
    Sequence,
    AllIdentMap,
    AllIdentSeq,
    OfIdentMap(u64),
    OfIdentSeq(u64),
    AllKeyNested,
    OfKeyNested(u64),
    AllKeyStrings,
    OfKeyStrings(u64),
    /// string members of mixed kinds (digit i of the mask in base 3: contains / case-insensitive
    /// contains / regex), which the loader batches into different searches
    AllKeyStringsMixed(u32),
    OfKeyStringsMixed(u64, u32),
    PlainStringsMixed(u32),
    /// string members whose occurrences overlap in the value when neighbours are both true
    AllKeyOverlap,
    OfKeyOverlap(u64),
    PlainList,
    Not,
    NotKey,
    NotGroupAnd,
    NotGroupOr,
}

impl Form {
    fn name(&self) -> String {
        format!("{:?}", self)
    }
}

fn leaf(i: usize) -> (Key, RVal) {
    (Key::plain(&format!("f{}", i)), RVal::Str("v".into()))
}

/// Build the rule for a form of arity k. Operand i is true iff `f{i} == "v"`, false iff f{i} is
/// another string, missing iff f{i} is absent (for the key-list forms the operands live inside
/// the object / string `k`, see `doc_for`).
pub fn rule_for(form: &Form, k: usize) -> RuleAst {
    let mut idents: Vec<(String, Ident)> = vec![];
    let cond;
    let chain = |and: bool| {
        let mut c = Cond::id("X0");
        for i in 1..k {
            c = if and { Cond::and(c, Cond::id(&format!("X{}", i))) } else { Cond::or(c, Cond::id(&format!("X{}", i))) };
        }
        c
    };
    let singles = |idents: &mut Vec<(String, Ident)>| {
        for i in 0..k {
            idents.push((format!("X{}", i), Ident::Map(vec![leaf(i)])));
        }
    };
    let nested_members = || RVal::List((0..k).map(|i| RVal::Map(vec![leaf(i)])).collect());
    match form {
        Form::AndChain => {
            singles(&mut idents);
            cond = chain(true);
        }
        Form::OrChain => {
            singles(&mut idents);
            cond = chain(false);
        }
        Form::Mapping => {
            idents.push(("A".into(), Ident::Map((0..k).map(leaf).collect())));
            cond = Cond::id("A");
        }
        Form::Sequence => {
            idents.push(("A".into(), Ident::Seq((0..k).map(|i| vec![leaf(i)]).collect())));
            cond = Cond::id("A");
        }
        Form::AllIdentMap => {
            idents.push(("A".into(), Ident::Map((0..k).map(leaf).collect())));
            cond = Cond::All("A".into());
        }
        Form::AllIdentSeq => {
            idents.push(("A".into(), Ident::Seq((0..k).map(|i| vec![leaf(i)]).collect())));
            cond = Cond::All("A".into());
        }
        Form::OfIdentMap(n) => {
            idents.push(("A".into(), Ident::Map((0..k).map(leaf).collect())));
            cond = Cond::Of("A".into(), *n);
        }
        Form::OfIdentSeq(n) => {
            idents.push(("A".into(), Ident::Seq((0..k).map(|i| vec![leaf(i)]).collect())));
            cond = Cond::Of("A".into(), *n);
        }
        Form::AllKeyNested => {
            idents.push(("A".into(), Ident::Map(vec![(Key::with("k", KMod::All), nested_members())])));
            cond = Cond::id("A");
        }
        Form::OfKeyNested(n) => {
            idents.push(("A".into(), Ident::Map(vec![(Key::with("k", KMod::Of(*n)), nested_members())])));
            cond = Cond::id("A");
        }
        Form::AllKeyStrings => {
            idents.push(("A".into(), Ident::Map(vec![(Key::with("k", KMod::All), RVal::List((0..k).map(|i| RVal::Str(format!("*m{}.*", i))).collect()))])));
            cond = Cond::id("A");
        }
        Form::OfKeyStrings(n) => {
            idents.push(("A".into(), Ident::Map(vec![(Key::with("k", KMod::Of(*n)), RVal::List((0..k).map(|i| RVal::Str(format!("*m{}.*", i))).collect()))])));
            cond = Cond::id("A");
        }
        Form::AllKeyStringsMixed(mask) => {
            idents.push(("A".into(), Ident::Map(vec![(Key::with("k", KMod::All), mixed_members(k, *mask))])));
            cond = Cond::id("A");
        }
        Form::OfKeyStringsMixed(n, mask) => {
            idents.push(("A".into(), Ident::Map(vec![(Key::with("k", KMod::Of(*n)), mixed_members(k, *mask))])));
            cond = Cond::id("A");
        }
        Form::PlainStringsMixed(mask) => {
            idents.push(("A".into(), Ident::Map(vec![(Key::plain("k"), mixed_members(k, *mask))])));
            cond = Cond::id("A");
        }
        Form::AllKeyOverlap => {
            idents.push(("A".into(), Ident::Map(vec![(Key::with("k", KMod::All), overlap_members(k))])));
            cond = Cond::id("A");
        }
        Form::OfKeyOverlap(n) => {
            idents.push(("A".into(), Ident::Map(vec![(Key::with("k", KMod::Of(*n)), overlap_members(k))])));
            cond = Cond::id("A");
        }
        Form::PlainList => {
            idents.push(("A".into(), Ident::Map(vec![(Key::plain("k"), nested_members())])));
            cond = Cond::id("A");
        }
        Form::Not => {
            singles(&mut idents);
            cond = Cond::not(Cond::id("X0"));
        }
        Form::NotKey => {
            idents.push(("A".into(), Ident::Map(vec![(Key::with("f0", KMod::Not), RVal::Str("v".into()))])));
            cond = Cond::id("A");
        }
        Form::NotGroupAnd => {
            idents.push(("A".into(), Ident::Map((0..k).map(leaf).collect())));
            cond = Cond::not(Cond::id("A"));
        }
        Form::NotGroupOr => {
            idents.push(("A".into(), Ident::Seq((0..k).map(|i| vec![leaf(i)]).collect())));
            cond = Cond::not(Cond::id("A"));
        }
    }
    RuleAst { idents, cond, tp: vec![], tn: vec![] }
}

fn mixed_members(k: usize, mask: u32) -> RVal {
    let mut m = mask;
    RVal::List(
        (0..k)
            .map(|i| {
                let kind = m % 3;
                m /= 3;
                RVal::Str(match kind {
                    0 => format!("*m{}.*", i),
                    1 => format!("i*M{}.*", i),
                    _ => format!("?m{}\\.", i),
                })
            })
            .collect(),
    )
}

fn overlap_members(k: usize) -> RVal {
    RVal::List((0..k).map(|i| RVal::Str(format!("*x{}.x{}.*", i, i + 1))).collect())
}
fn uses_k_overlap(form: &Form) -> bool {
    matches!(form, Form::AllKeyOverlap | Form::OfKeyOverlap(_))
}

fn uses_k_object(form: &Form) -> bool {
    matches!(form, Form::AllKeyNested | Form::OfKeyNested(_) | Form::PlainList)
}
fn uses_k_string(form: &Form) -> bool {
    matches!(form, Form::AllKeyStrings | Form::OfKeyStrings(_) | Form::AllKeyStringsMixed(_) | Form::OfKeyStringsMixed(..) | Form::PlainStringsMixed(_))
}

/// the document realising an operand vector (0 = T, 1 = F, 2 = M); None if the form cannot
/// realise the vector
pub fn doc_for(form: &Form, vec: &[u8]) -> Option<DVal> {
    let mut fields = vec![];
    for (i, v) in vec.iter().enumerate() {
        match v {
            0 => fields.push((format!("f{}", i), DVal::s("v"))),
            1 => fields.push((format!("f{}", i), DVal::s("w"))),
            _ => {}
        }
    }
    if uses_k_object(form) {
        Some(DVal::Obj(vec![("k".to_string(), DVal::Obj(fields))]))
    } else if uses_k_overlap(form) {
        if vec.iter().all(|v| *v == 2) {
            Some(DVal::Obj(vec![]))
        } else if vec.iter().any(|v| *v == 2) {
            None
        } else {
            // maximal runs of true members i..j become one piece x{i}.x{i+1}. .. x{j+1}. in which
            // neighbouring needles share a token
            let mut s = String::from("_");
            let mut i = 0;
            while i < vec.len() {
                if vec[i] == 0 {
                    let mut j = i;
                    while j + 1 < vec.len() && vec[j + 1] == 0 {
                        j += 1;
                    }
                    for t in i..=(j + 1) {
                        s.push_str(&format!("x{}.", t));
                    }
                    s.push('_');
                    i = j + 1;
                } else {
                    i += 1;
                }
            }
            Some(DVal::Obj(vec![("k".to_string(), DVal::Str(s))]))
        }
    } else if uses_k_string(form) {
        // string members are all missing together (field absent) or each T/F
        if vec.iter().all(|v| *v == 2) {
            Some(DVal::Obj(vec![]))
        } else if vec.iter().any(|v| *v == 2) {
            None
        } else {
            let s: String = vec.iter().enumerate().filter(|(_, v)| **v == 0).map(|(i, _)| format!("m{}.", i)).collect();
            Some(DVal::Obj(vec![("k".to_string(), DVal::Str(format!("_{}", s)))]))
        }
    } else {
        Some(DVal::Obj(fields))
    }
}

fn expected(form: &Form, sets: &[TS]) -> TS {
    match form {
        Form::AndChain | Form::Mapping => and_ordered(sets),
        Form::OrChain | Form::Sequence | Form::PlainList | Form::PlainStringsMixed(_) => or3(sets),
        Form::AllIdentMap | Form::AllIdentSeq | Form::AllKeyNested | Form::AllKeyStrings | Form::AllKeyStringsMixed(_) | Form::AllKeyOverlap => all3(sets),
        Form::OfIdentMap(n) | Form::OfIdentSeq(n) | Form::OfKeyNested(n) | Form::OfKeyStrings(n) | Form::OfKeyStringsMixed(n, _) | Form::OfKeyOverlap(n) => of3(sets, *n),
        Form::Not | Form::NotKey => not3(sets[0]),
        Form::NotGroupAnd => not3(and_ordered(sets)),
        Form::NotGroupOr => not3(or3(sets)),
    }
}

pub fn forms_for(k: usize) -> Vec<Form> {
    let mut v = vec![Form::Mapping, Form::Sequence, Form::AllIdentMap, Form::AllIdentSeq, Form::AllKeyNested, Form::AllKeyStrings, Form::PlainList, Form::NotGroupAnd, Form::NotGroupOr];
    if k >= 2 {
        v.push(Form::AndChain);
        v.push(Form::OrChain);
    }
    if k == 1 {
        v.push(Form::Not);
        v.push(Form::NotKey);
    }
    let ns: Vec<u64> = if k <= 5 { (0..=(k as u64 + 1)).collect() } else { vec![0, 1, 2, k as u64 / 2, k as u64 - 1, k as u64, k as u64 + 1] };
    for n in ns.iter().cloned() {
        v.push(Form::OfIdentMap(n));
        v.push(Form::OfIdentSeq(n));
        v.push(Form::OfKeyNested(n));
        v.push(Form::OfKeyStrings(n));
    }
    if (2..=9).contains(&k) {
        v.push(Form::AllKeyOverlap);
        for n in ns.iter().cloned() {
            v.push(Form::OfKeyOverlap(n));
        }
    }
    if (2..=4).contains(&k) {
        for mask in 1..3u32.pow(k as u32) {
            v.push(Form::AllKeyStringsMixed(mask));
            v.push(Form::PlainStringsMixed(mask));
            for n in ns.iter().cloned() {
                v.push(Form::OfKeyStringsMixed(n, mask));
            }
        }
    }
    v
}

/// operand vectors for arity k: all 3^k up to arity 5, beyond that the uniform vectors, every
/// vector with one deviating operand at the first / middle / last position, and a seeded sample
fn vectors_for(k: usize, salt: u64) -> Vec<Vec<u8>> {
    if k <= 5 {
        return (0..3usize.pow(k as u32))
            .map(|code| {
                let mut c = code;
                (0..k)
                    .map(|_| {
                        let d = (c % 3) as u8;
                        c /= 3;
                        d
                    })
                    .collect()
            })
            .collect();
    }
    let mut out: Vec<Vec<u8>> = vec![];
    for base in 0..3u8 {
        out.push(vec![base; k]);
        for dev in 0..3u8 {
            if dev != base {
                for at in [0, 1, k / 2, k - 2, k - 1] {
                    let mut v = vec![base; k];
                    v[at] = dev;
                    out.push(v);
                }
            }
        }
    }
    let mut rng = crate::prng::Rng::new(salt, "C06-vectors", k as u64);
    for _ in 0..40 {
        let w = [rng.below(100) as u32, rng.below(100) as u32, rng.below(60) as u32];
        out.push((0..k).map(|_| rng.weighted(&[w[0] + 1, w[1] + 1, w[2] + 1]) as u8).collect());
    }
    out
}

pub fn run(ctx: &Ctx) -> i32 {
    let mut work: Vec<(Form, usize)> = vec![];
    // complete up to arity 5; arities around the sizes at which implementations switch
    // representation (8, 16, 32, 64 operands) with sampled operand vectors
    for k in [1usize, 2, 3, 4, 5, 8, 9, 16, 17, 33, 64, 65] {
        if ctx.quick() && k > 33 {
            continue;
        }
        for f in forms_for(k) {
            work.push((f, k));
        }
    }
    let rep = par_shards(ctx, work.len(), |wi| {
        let mut rep = Report::new();
        let (form, k) = &work[wi];
        let ast = rule_for(form, *k);
        // the texts leave one-entry-with-list identifiers open; not generated here
        let Some(text) = ast.to_text() else {
            rep.count("emitter_self_check_failed");
            return rep;
        };
        let Some(rule) = eng::load_ok(&text) else {
            rep.violation("load-failed", &format!("c06-load:{}", form.name()), &format!("table rule for {} arity {} does not load", form.name(), k), json!({"rule": text}));
            return rep;
        };
        // probe pair: the same condition under `not (...)`
        let mut neg = ast.clone();
        neg.cond = Cond::not(Cond::Paren(Box::new(ast.cond.clone())));
        let neg_rule = neg.to_text().and_then(|t| eng::load_ok(&t));
        let optimised: Vec<(Sw, tau_engine::Rule)> = Sw::ALL16.iter().skip(1).filter_map(|s| eng::optimise(&rule, *s).ok().map(|r| (*s, r))).collect();
        let vectors = vectors_for(*k, ctx.seed);
        let total = vectors.len();
        for (code, vec) in vectors.into_iter().enumerate() {
            let Some(doc) = doc_for(form, &vec) else { continue };
            let sets: Vec<TS> = vec.iter().map(|v| [T, F, M][*v as usize]).collect();
            let exp = expected(form, &sets);
            let m = to_yaml_map(&doc);
            let got3 = match eng::solve3(&rule, &m) {
                Ok(c) => c,
                Err(p) => {
                    rep.violation("panic", &format!("panic:{}", p.sig()), &format!("panic in table cell: {}", p.sig()), mon::case(&text, &doc, None, json!("no-panic"), json!(p.sig()), json!({})));
                    continue;
                }
            };
            let got = eng::matches(&rule, &m).unwrap_or(false);
            rep.evaluations += 1;
            let vecname: String = vec.iter().map(|v| ["T", "F", "M"][*v as usize]).collect();
            let cell = format!("{}|{}|{}", form.name(), k, vecname);
            if vec.iter().any(|v| *v != 0) {
                rep.nontrivial_key(&cell);
            }
            // top level: match <=> true
            if got != (got3 == 1) {
                rep.violation("top-level", &format!("c06-top:{}", form.name()), &format!("matches()={} but condition evaluated to {}", got, got3), mon::case(&text, &doc, None, json!(got3 == 1), json!(got), json!({"cell": cell})));
            }
            // the probe pair must agree with the hook (monitor validation + `not` table)
            if let Some(nr) = &neg_rule {
                rep.evaluations += 1;
                let negm = eng::matches(nr, &m).unwrap_or(false);
                let by_probe = if got { 1 } else if negm { 0 } else { 2 };
                if by_probe != got3 {
                    rep.violation("probe-pair", &format!("c06-probe:{}", form.name()), &format!("three-valued by probe pair {} != hooked result {}", by_probe, got3), mon::case(&text, &doc, None, json!(null), json!({"probe": by_probe, "hook": got3}), json!({"cell": cell})));
                }
            }
            if refi::from_code(got3) & exp == 0 {
                rep.violation(
                    "table",
                    &format!("c06:{}:{}", form.name(), vecname),
                    &format!("{} arity {} operands {}: engine {} , table allows {}", form.name(), k, vecname, ts_name(refi::from_code(got3)), ts_name(exp)),
                    mon::case(&text, &doc, None, json!(refi::verdict(exp)), json!(got), json!({"cell": cell, "table": ts_name(exp), "engine3": got3})),
                );
            } else if exp.count_ones() > 1 {
                rep.count(&format!("pinned.{}.{}", form.name().split('(').next().unwrap_or(""), ["false", "true", "missing"][got3 as usize]));
            }
            if rep.samples.is_empty() && code == total / 2 {
                rep.sample(json!({"form": form.name(), "arity": k, "operands": vecname, "rule": text, "doc": doc.to_json_text(), "table": ts_name(exp), "engine": got3}));
            }
            // every cell also under the optimisation switch sets, where the form is not the
            // subject of an open C01 finding (verdict only; these are extra C01 inputs)
            if crate::c01::triggers(&ast).is_empty() {
                for (sw, o) in &optimised {
                    rep.evaluations += 1;
                    if let Ok(v) = eng::matches(o, &m) {
                        if v != got {
                            rep.violation("optimised-cell", &format!("c06-opt:{}:{}", form.name(), sw.name()), &format!("cell {} differs after optimise[{}]", cell, sw.name()), mon::case(&text, &doc, Some(*sw), json!(got), json!(v), json!({"cell": cell})));
                        }
                    }
                }
            }
        }
        rep
    });
    let mut rep = rep;
    crate::regress::replay_witnesses(ctx, &mut rep);
    finish(
        ctx,
        rep,
        Meta {
            rule: "complete enumeration: forms {binary and/or chain, mapping, sequence of mappings, all(X)/of(X,n) over map and sequence identifiers, all(k)/of(k,n)/plain list over nested-mapping members and over string members, not, not(k), not over groups} x arity 1..5 x every operand vector in {T,F,M}^k x n in 0..k+1, string members also with needles that overlap in the value and in every mix of kinds (contains / case-insensitive contains / regex, arity 2..4), and arities 8, 9, 16, 17, 33 (64, 65 thorough) with uniform, one-deviation and sampled vectors and thresholds {0,1,2,k/2,k-1,k,k+1}; observed three-valued (hook H2, cross-checked with the not-probe pair) against the tables of the statement. non-trivial = cell with at least one F or M operand; distinct = (form, arity, vector, n)".into(),
            exhaustive: true,
            assumptions: vec!["where the statement fixes only truth (all/of when not true) false vs missing is recorded under counters.pinned.*, not judged".into()],
            min_nontrivial: 500,
            extra: json!({}),
        },
    )
}
