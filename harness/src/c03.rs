//! C03 — an accepted rule can always be evaluated: after a successful load, optimise (any
//! switches), matches (any document) and validate never panic or abort.

use std::time::Duration;

use serde_json::json;
use serde_yaml::Value as Y;

use crate::ast::*;
use crate::dval::{to_yaml, to_yaml_map, DVal};
use crate::eng::{self, Load, Sw};
use crate::gen::{self, GenCfg};
use crate::prng::Rng;
use crate::reps::{to_myval, FickleDoc, FlatDoc};
use crate::run::{clear_case, finish, par_shards, set_case, start_watchdog, Ctx, Meta, Report};

/// condition text with token-level damage that often still loads
pub fn hostile_condition(rng: &mut Rng, base: &Cond, names: &[String]) -> String {
    let mut t = base.text();
    let lits = ["1", "0", "1.5", "int(a)", "flt(b)", "str(c)", "not(a)", "all(I0)", "of(I0, 0)", "of(I0, 99999999999)", "of(I1, 1)", "int(a) == 1", "1 == int(a)", "int(a) == int(b)", "str(a) == str(b)", "flt(a) < 1.5", "(1)", "(int(a))", "I0", "not I0"];
    for _ in 0..1 + rng.below(3) {
        match rng.below(8) {
            0 | 1 => {
                // replace one identifier occurrence by a literal / cast / quantifier
                let n = rng.pick(names).clone();
                if let Some(pos) = t.find(n.as_str()) {
                    t.replace_range(pos..pos + n.len(), rng.pick_str(&lits));
                }
            }
            2 => t = format!("{} and {}", t, rng.pick_str(&lits)),
            3 => t = format!("{} or {}", rng.pick_str(&lits), t),
            4 => t = format!("not ({})", t),
            5 => t = t.replacen(" and ", " or ", 1),
            6 => t = format!("({}) and ({})", t, rng.pick_str(&lits)),
            _ => t = t.replacen("not ", "not not ", 1),
        }
    }
    t
}

fn hostile_leaf(rng: &mut Rng) -> Y {
    match rng.below(14) {
        0 => Y::Null,
        1 => Y::Bool(rng.chance(50)),
        2 => Y::Number(u64::MAX.into()),
        3 => Y::Number(i64::MIN.into()),
        4 => Y::Number(f64::NAN.into()),
        5 => Y::Number(1e300.into()),
        6 => Y::String(String::new()),
        7 => Y::String(rng.pick_str(&["i", "*", "**", "i*", "?", "?.*", "?.*?x", "?a\\.*", "?(a|b)*", "i?", "\"", "'x", "=0", ">-1", "<=9223372036854775807", "=1.0", "i=1"]).to_string()),
        8 => Y::Sequence(vec![]),
        9 => Y::Sequence(vec![Y::String(String::new())]),
        10 => Y::Sequence(vec![Y::Null, Y::Null]),
        11 => Y::Sequence((0..70).map(|i| Y::String(format!("*n{}*", i))).collect()),
        12 => Y::Sequence(vec![Y::String("?a".into()), Y::String("?a".into()), Y::String("i?a".into())]),
        _ => Y::Mapping(serde_yaml::Mapping::new()),
    }
}

/// replace a few leaf values inside the identifiers of a rule value
pub fn damage_identifiers(rng: &mut Rng, root: &mut Y) {
    fn leaves<'a>(v: &'a mut Y, out: &mut Vec<&'a mut Y>) {
        match v {
            Y::Mapping(m) => {
                for (_, x) in m.iter_mut() {
                    leaves(x, out);
                }
            }
            Y::Sequence(s) => {
                for x in s.iter_mut() {
                    leaves(x, out);
                }
            }
            other => out.push(other),
        }
    }
    if let Some(Y::Mapping(det)) = root.get_mut("detection") {
        let mut ls = vec![];
        for (k, v) in det.iter_mut() {
            if k.as_str() != Some("condition") {
                leaves(v, &mut ls);
            }
        }
        if !ls.is_empty() {
            for _ in 0..1 + rng.below(2) {
                let i = rng.below(ls.len());
                *ls[i] = hostile_leaf(rng);
            }
        }
    }
}

pub fn hostile_value(rng: &mut Rng, depth: usize) -> DVal {
    let w = if depth >= 3 { 0 } else { 10 };
    match rng.weighted(&[6, 6, 6, 6, 6, 6, 6, 12, 4, w, w, w, 3]) {
        0 => DVal::Null,
        1 => DVal::Bool(rng.chance(50)),
        2 => DVal::Int(*rng.pick(&[i64::MIN, -1, 0, i64::MAX])),
        3 => DVal::UInt(*rng.pick(&[0, 1, i64::MAX as u64, i64::MAX as u64 + 1, u64::MAX])),
        4 => DVal::Float(*rng.pick(&[f64::NAN, f64::INFINITY, f64::NEG_INFINITY, -0.0, 0.5, 1e300, -1e300, 5e-324, 9.223372036854776e18])),
        5 => DVal::Str(String::new()),
        6 => DVal::Str(rng.pick_str(&["1", "-1", "1.5", "true", "nan", "inf", "9223372036854775808", " 1", "1e400", "٣"]).to_string()),
        7 => DVal::Str(gen::word(rng)),
        8 => DVal::Arr(vec![]),
        9 => DVal::Arr((0..rng.below(4)).map(|_| hostile_value(rng, depth + 1)).collect()),
        10 => DVal::Obj((0..rng.below(4)).map(|_| (rng.pick_str(&["a", "b", "x", "y", "q", ""]).to_string(), hostile_value(rng, depth + 1))).collect()),
        11 => DVal::Arr((0..1 + rng.below(3)).map(|_| DVal::Obj((0..rng.below(3)).map(|_| (rng.pick_str(&["a", "b", "x", "y"]).to_string(), hostile_value(rng, depth + 2))).collect())).collect()),
        _ => DVal::Str("é".repeat(1 + rng.below(300))),
    }
}

pub fn hostile_doc(rng: &mut Rng, fields: &[String]) -> DVal {
    let mut o = vec![];
    for f in fields {
        if rng.chance(75) {
            // dotted / indexed keys are delivered both as literal keys (found by flat documents)
            // and as structure (first segment)
            let top = f.split('.').next().unwrap_or(f).split('[').next().unwrap_or(f).to_string();
            if !o.iter().any(|(k, _): &(String, DVal)| *k == top) {
                o.push((top, hostile_value(rng, 0)));
            }
        }
    }
    DVal::Obj(o)
}

pub fn rule_fields(v: &Y, out: &mut Vec<String>) {
    // every mapping key below the identifiers, with its modifier stripped by the harness
    match v {
        Y::Mapping(m) => {
            for (k, x) in m {
                if let Some(s) = k.as_str() {
                    let inner = s.rsplit_once('(').map(|(_, r)| r).unwrap_or(s);
                    let f = inner.split([',', ')']).next().unwrap_or(inner).trim().to_string();
                    if !f.is_empty() && !out.contains(&f) {
                        out.push(f);
                    }
                }
                rule_fields(x, out);
            }
        }
        Y::Sequence(s) => s.iter().for_each(|x| rule_fields(x, out)),
        _ => {}
    }
}

fn exercise(rep: &mut Report, rng: &mut Rng, text: &str, rule: &tau_engine::Rule, fields: &[String], ndocs: usize, aware: &[DVal]) {
    let mut docs: Vec<DVal> = (0..ndocs).map(|_| hostile_doc(rng, fields)).collect();
    docs.extend(aware.iter().cloned());
    let maps: Vec<serde_yaml::Mapping> = docs.iter().map(to_yaml_map).collect();
    // a flat document that answers every addressed key literally, with arbitrary kinds
    let flat = FlatDoc { table: fields.iter().map(|f| (f.clone(), to_myval(&hostile_value(rng, 0)))).collect(), log: None };
    let fickle = FickleDoc { values: (0..11).map(|_| to_myval(&hostile_value(rng, 0))).collect(), calls: std::sync::atomic::AtomicUsize::new(0) };
    let bad = |rep: &mut Report, stage: &str, p: &eng::Panic, sw: Option<Sw>, doc: Option<&DVal>| {
        rep.violation(
            "panic",
            &format!("c03-panic:{}", p.sig()),
            &format!("rule loads, then {} panics at {}", stage, p.sig()),
            json!({"rule": text, "doc": doc.map(crate::mon::doc_text), "doc_json": doc.map(|d| d.to_json_text()), "switches": sw.map(|s| s.0 as i64).unwrap_or(-1), "stage": stage, "panic": p.sig(), "expected": "no-panic"}),
        );
    };
    for sw in Sw::ALL16 {
        set_case("optimise", text);
        let o = if sw.0 == 0 {
            Ok(rule.clone())
        } else {
            eng::optimise(rule, sw)
        };
        let o = match o {
            Ok(o) => o,
            Err(p) => {
                bad(rep, &format!("optimise[{}]", sw.name()), &p, Some(sw), None);
                continue;
            }
        };
        for (i, m) in maps.iter().enumerate() {
            rep.evaluations += 1;
            if let Err(p) = eng::matches(&o, m) {
                bad(rep, &format!("matches after optimise[{}]", sw.name()), &p, Some(sw), Some(&docs[i]));
                break;
            }
        }
        rep.evaluations += 1;
        if let Err(p) = eng::matches(&o, &flat) {
            bad(rep, &format!("matches(flat document) after optimise[{}]", sw.name()), &p, Some(sw), None);
        }
        // a document whose answers change kind from call to call
        for start in 0..3 {
            rep.evaluations += 1;
            fickle.calls.store(start * 5, std::sync::atomic::Ordering::Relaxed);
            if let Err(p) = eng::matches(&o, &fickle) {
                bad(rep, &format!("matches(inconsistent document) after optimise[{}]", sw.name()), &p, Some(sw), None);
                break;
            }
        }
        if sw.0 == 0 || sw.0 == 15 {
            rep.evaluations += 1;
            if let Err(p) = eng::validate(&o) {
                bad(rep, &format!("validate after optimise[{}]", sw.name()), &p, Some(sw), None);
            }
        }
    }
    clear_case();
}

pub fn child(ctx: &Ctx) -> i32 {
    let cand = format!("{}/replays/C03/hang-candidate.json", ctx.verif_dir);
    let _ = std::fs::create_dir_all(format!("{}/replays/C03", ctx.verif_dir));
    let _ = std::fs::remove_file(&cand);
    start_watchdog(cand, Duration::from_secs(60));
    let shards = ctx.size(64, 512);
    let per_shard = ctx.size(500, 3000);
    let rep = par_shards(ctx, shards, |shard| {
        let mut rep = Report::new();
        let mut rng = Rng::new(ctx.seed, "C03", shard as u64);
        let cfg = GenCfg::default();
        for n in 0..per_shard {
            if ctx.expired() {
                rep.truncated = true;
                break;
            }
            let mut ast = if n % 60 == 11 { gen::wide_matrix_rule(&mut rng) } else { gen::gen_rule(&mut rng, &cfg) };
            let names: Vec<String> = ast.idents.iter().map(|(n, _)| n.clone()).collect();
            let kind = if n % 60 == 11 { 4 } else { rng.below(5) };
            // examples: mappings and (stream d) non-mapping entries
            let leaves = gen::collect_leaves(&ast);
            ast.tp = (0..rng.below(3)).map(|_| gen::gen_doc(&mut rng, &leaves)).collect();
            ast.tn = (0..rng.below(3)).map(|_| gen::gen_doc(&mut rng, &leaves)).collect();
            let mut v = ast.to_yaml_value();
            if kind == 0 || kind == 1 {
                let c = hostile_condition(&mut rng, &ast.cond, &names);
                if let Some(Y::Mapping(det)) = v.get_mut("detection") {
                    det.insert(Y::String("condition".into()), Y::String(c));
                }
            }
            if kind == 1 || kind == 2 {
                damage_identifiers(&mut rng, &mut v);
            }
            if kind == 3 {
                for k in ["true_positives", "true_negatives"] {
                    if rng.chance(60) {
                        if let Some(Y::Sequence(s)) = v.get_mut(k) {
                            let bad = match rng.below(6) {
                                0 => Y::Null,
                                1 => Y::Number(1.into()),
                                2 => Y::String("x".into()),
                                3 => Y::Sequence(vec![]),
                                4 => Y::Bool(true),
                                _ => to_yaml(&DVal::Arr(vec![DVal::Obj(vec![])])),
                            };
                            let at = rng.below(s.len() + 1);
                            s.insert(at, bad);
                        }
                    }
                }
            }
            let text = match serde_yaml::to_string(&v) {
                Ok(t) => t,
                Err(_) => continue,
            };
            set_case("load", &text);
            let rule = match eng::load(&text) {
                Ok(Load::Ok(r)) => *r,
                Ok(Load::Err(_)) => {
                    rep.count(&format!("stream{}.rejected", kind));
                    continue;
                }
                Err(_) => {
                    rep.count("load_panicked(C04)");
                    continue;
                }
            };
            rep.count(&format!("stream{}.accepted", kind));
            if kind == 0 || kind == 1 {
                if let Some(c) = v.get("detection").and_then(|d| d.get("condition")).and_then(|c| c.as_str()) {
                    let ok = match crate::cgram::parse_lenient(c) {
                        Ok(pc) => {
                            let mut ids = vec![];
                            pc.idents(&mut ids);
                            ids.iter().all(|i| names.contains(i))
                        }
                        Err(e) => !e.contains("operand where a predicate is required") && !e.contains("key modifier"),
                    };
                    if !ok {
                        rep.violation("accepted-invalid", "c03-accepted-invalid", &format!("the loader accepts the condition {:?} although the fixed grammar rejects it or an identifier does not exist", c), json!({"rule": text, "expected": "load-err"}));
                    }
                }
            }
            let mut fields = vec![];
            if let Some(det) = v.get("detection") {
                rule_fields(det, &mut fields);
            }
            for f in ["a", "b", "c", "num", "flag"] {
                if !fields.iter().any(|x| x == f) {
                    fields.push(f.to_string());
                }
            }
            rep.nontrivial_key(&format!("{}|{}", kind, eng::printed(&rule)));
            // rule-aware documents as well: they reach late needles of wide lists and late
            // columns of wide matrices
            let aware: Vec<DVal> = (0..3).map(|_| gen::gen_doc(&mut rng, &leaves)).collect();
            exercise(&mut rep, &mut rng, &text, &rule, &fields, ctx.size(4, 6), &aware);
            if n == 0 && shard < 4 {
                rep.sample(json!({"stream": kind, "rule": text, "switch_sets": 16, "documents": ctx.size(4, 6) + 1}));
            }
        }
        rep
    });
    let mut rep = rep;
    // deep nesting (depth 64) in condition parentheses, nested mappings and documents
    {
        let mut cond = String::from("A");
        for _ in 0..64 {
            cond = format!("({})", cond);
        }
        let mut nested = String::from("v");
        let mut docv = DVal::s("v");
        for _ in 0..64 {
            nested = format!("{{k: {}}}", nested);
            docv = DVal::Obj(vec![("k".into(), docv)]);
        }
        let text = format!("detection:\n  A: {}\n  condition: {}\ntrue_positives: []\ntrue_negatives: []\n", nested, cond);
        match eng::load(&text) {
            Ok(Load::Ok(r)) => {
                rep.count("deep_nesting_rule_loaded");
                let m = match to_yaml(&docv) {
                    Y::Mapping(m) => m,
                    _ => serde_yaml::Mapping::new(),
                };
                for sw in Sw::ALL16 {
                    rep.evaluations += 1;
                    match eng::optimise(&r, sw).and_then(|o| eng::matches(&o, &m)) {
                        Ok(true) => {}
                        Ok(false) => rep.notes.push("depth-64 rule does not match its own document".into()),
                        Err(p) => rep.violation("panic", &format!("c03-panic:{}", p.sig()), &format!("depth-64 rule panics at {}", p.sig()), json!({"rule": text})),
                    }
                }
            }
            Ok(Load::Err(_)) => rep.count("deep_nesting_rule_rejected"),
            Err(_) => rep.count("load_panicked(C04)"),
        }
    }
    // the load-time clause of the property: a condition whose and/or/not operands are not all
    // predicates, or that mentions an identifier that does not exist, must be REJECTED (not
    // merely evaluated without a panic). Complete over all sequences of <= 4 condition symbols.
    {
        let syms = crate::c04::COND_SYMS;
        let n = syms.len();
        let stripes = 16usize;
        let acc = par_shards(ctx, stripes, |stripe| {
            let mut rep = Report::new();
            for len in 1..=4usize {
                let total = n.pow(len as u32);
                let mut idx = stripe;
                while idx < total {
                    let mut cond = String::new();
                    let mut c = idx;
                    for _ in 0..len {
                        cond.push_str(syms[c % n]);
                        c /= n;
                    }
                    idx += stripes;
                    let text = format!("detection:\n  A:\n    f: v\n  B:\n    g: v\n  condition: {}\ntrue_positives: []\ntrue_negatives: []\n", serde_yaml::to_string(&cond).unwrap_or_default().trim());
                    let reference = crate::cgram::parse_lenient(&cond);
                    // only what the property's clause names: an undefined identifier, or an
                    // and/or/not operand that is not a predicate
                    let valid = match &reference {
                        Ok(c) => {
                            let mut ids = vec![];
                            c.idents(&mut ids);
                            ids.iter().all(|i| i == "A" || i == "B")
                        }
                        Err(e) => !e.contains("operand where a predicate is required") && !e.contains("key modifier"),
                    };
                    rep.evaluations += 1;
                    if let Ok(Load::Ok(_)) = eng::load(&text) {
                        rep.count("load_clause.accepted");
                        if !valid {
                            rep.violation(
                                "accepted-invalid",
                                "c03-accepted-invalid",
                                &format!("the loader accepts the condition {:?} although {}", cond, match &reference { Err(e) => format!("the fixed grammar rejects it ({})", e), Ok(_) => "it mentions an identifier that does not exist".to_string() }),
                                json!({"rule": text, "expected": "load-err"}),
                            );
                        } else {
                            rep.nontrivial_key(&format!("accepted|{}", cond));
                        }
                    } else {
                        rep.count("load_clause.rejected");
                    }
                }
            }
            rep
        });
        rep.merge(acc);
    }
    // regular expressions are compiled again when the optimiser merges or rewrites them: every
    // regex text the loader accepts (all short texts over the regex-syntax alphabet, random longer
    // ones) as single regexes of several identifiers over one field joined by `or`, and regexes
    // near the compiler's size limit spread over identifiers (each list loads; the merged set is
    // bigger than any of them)
    {
        let syms = crate::c04::REGEX_SYMS;
        let n = syms.len();
        let stripes = 16usize;
        let maxlen = ctx.size(3, 4);
        let acc = par_shards(ctx, stripes, |stripe| {
            let mut rep = Report::new();
            let mut rng = Rng::new(ctx.seed, "C03-regex", stripe as u64);
            let docs: Vec<DVal> = ["a", "ab\n0", "", "(A|b)", "\\0", "\u{0}1"].iter().map(|h| DVal::obj(vec![("k", DVal::s(h))])).chain([DVal::obj(vec![("k", DVal::UInt(10))]), DVal::Obj(vec![])]).collect();
            let mut texts: Vec<String> = vec![];
            for len in 1..=maxlen {
                let total = n.pow(len as u32);
                let mut idx = stripe;
                while idx < total {
                    let mut re = String::new();
                    let mut c = idx;
                    for _ in 0..len {
                        re.push_str(syms[c % n]);
                        c /= n;
                    }
                    idx += stripes;
                    texts.push(re);
                }
            }
            for _ in 0..ctx.size(300, 5000) {
                texts.push(crate::c04::random_string(&mut rng, syms, 9));
            }
            if stripe == 0 {
                for unit in ["\\w", "\\pL", "[a-z0-9]", "."] {
                    for n in [50usize, 100, 200, 300, 1000] {
                        if ctx.quick() && (n > 300 || unit.len() < 3) {
                            continue;
                        }
                        texts.push(format!("{}{{{}}}", unit, n));
                    }
                }
            }
            let q = |t: &str| serde_yaml::to_string(&Y::String(t.to_string())).unwrap_or_default().trim().to_string();
            for re in &texts {
                if ctx.expired() {
                    rep.truncated = true;
                    break;
                }
                let big = re.len() > 3 && re.ends_with('}');
                let variants: Vec<String> = if big {
                    // 2..4 identifiers with 1, 2 or 4 members each
                    let mut v = vec![];
                    for (ids, m) in [(2usize, 1usize), (2, 2), (2, 4), (4, 2), (3, 4)] {
                        let mut t = String::from("detection:\n");
                        for i in 0..ids {
                            t.push_str(&format!("  I{}:\n    k:\n", i));
                            for j in 0..m {
                                t.push_str(&format!("    - {}\n", q(&format!("?{}{}{}", re, i, j))));
                            }
                        }
                        t.push_str(&format!("  condition: {}\ntrue_positives: []\ntrue_negatives: []\n", (0..ids).map(|i| format!("I{}", i)).collect::<Vec<_>>().join(" or ")));
                        v.push(t);
                    }
                    v
                } else {
                    vec![format!(
                        "detection:\n  A:\n    k: {}\n  B:\n    k: {}\n  C:\n    k:\n    - {}\n    - {}\n  D:\n    k: {}\n  E:\n    k: {}\n  condition: A or B or C or D or E\ntrue_positives: []\ntrue_negatives: []\n",
                        q(&format!("?{}", re)),
                        q("?b+"),
                        q(&format!("i?{}", re)),
                        q("i?c+"),
                        q("?.*a"),
                        q(&format!("i?{}", re))
                    )]
                };
                for text in variants {
                    set_case("load", &text);
                    let rule = match eng::load(&text) {
                        Ok(Load::Ok(r)) => *r,
                        Ok(Load::Err(_)) => {
                            rep.count("regex_stage.rejected");
                            continue;
                        }
                        Err(_) => {
                            rep.count("load_panicked(C04)");
                            continue;
                        }
                    };
                    rep.count(if big { "regex_stage.big_accepted" } else { "regex_stage.accepted" });
                    rep.nontrivial_key(&format!("re|{}", re));
                    let maps: Vec<serde_yaml::Mapping> = docs.iter().map(to_yaml_map).collect();
                    let base: Vec<Option<bool>> = maps.iter().map(|m| eng::matches(&rule, m).ok()).collect();
                    for sw in Sw::ALL16.iter().skip(1) {
                        set_case("optimise", &text);
                        match eng::optimise(&rule, *sw) {
                            Err(p) => {
                                rep.violation("panic", &format!("c03-panic:{}", p.sig()), &format!("rule loads, then optimise[{}] panics at {}", sw.name(), p.sig()), json!({"rule": text, "switches": sw.0 as i64, "stage": "optimise", "panic": p.sig(), "expected": "no-panic"}));
                                break;
                            }
                            Ok(o) => {
                                for (i, m) in maps.iter().enumerate() {
                                    rep.evaluations += 1;
                                    match eng::matches(&o, m) {
                                        Err(p) => {
                                            rep.violation("panic", &format!("c03-panic:{}", p.sig()), &format!("rule loads, then matches after optimise[{}] panics at {}", sw.name(), p.sig()), json!({"rule": text, "doc_json": docs[i].to_json_text(), "switches": sw.0 as i64, "stage": "matches", "panic": p.sig(), "expected": "no-panic"}));
                                            break;
                                        }
                                        Ok(v) => {
                                            // a pure disjunction of searches: the optimised verdict is the unoptimised one
                                            if Some(v) != base[i] && base[i].is_some() {
                                                rep.count("regex_stage.verdict_differs(C01)");
                                            }
                                        }
                                    }
                                }
                            }
                        }
                    }
                    clear_case();
                }
            }
            rep
        });
        rep.merge(acc);
        if rep.get("regex_stage.accepted") == 0 || rep.get("regex_stage.big_accepted") == 0 {
            rep.inconclusive.push("the regex stage loaded no rule".into());
        }
    }
    // thorough only: huge rules (a list of 10^5 members; an or-group over more distinct fields
    // than the matrix's one-character keys can number before the surrogate gap)
    if !ctx.quick() {
        huge_rules(&mut rep);
    }
    crate::regress::replay_witnesses(ctx, &mut rep);
    let accepted: u64 = (0..5).map(|k| rep.get(&format!("stream{}.accepted", k))).sum();
    if accepted < 200 {
        rep.inconclusive.push(format!("only {} hostile rules were accepted by the loader", accepted));
    }
    finish(
        ctx,
        rep,
        Meta {
            rule: "rules that load although they are hostile: generated rules whose condition received token-level damage (literals, casts and quantifiers as operands of and/or/not, huge thresholds, double negation), whose identifier leaves were replaced by hostile YAML (empty strings and lists, 70-member lists, regex edge cases, u64/i64 extremes, NaN), and whose example lists contain non-mapping entries; every accepted rule is optimised with all 16 switch sets and matched against adversarial documents (every value kind for every addressed key, empty and nested containers, 64-bit extremes, NaN, inf, long multi-byte strings, a flat Document answering dotted keys literally) and validated; plus depth-64 nesting; plus every regex text of <= 3 symbols over a 20-symbol regex-syntax alphabet (and random longer ones) as lone regexes of several identifiers over one field joined by `or` (the optimiser compiles them again as one set), and regexes of 50..1000 repetitions spread over 2..4 identifiers, all 15 switch sets. Oracle: panic monitor + watchdog in a child process. non-trivial = accepted rule, distinct by (stream, printed expression)".into(),
            exhaustive: false,
            assumptions: vec!["load-time panics are C04's subject and only counted here".into()],
            min_nontrivial: 200,
            extra: json!({}),
        },
    )
}

/// run one stuck input again, alone (hang confirmation): load, every switch set, a few
/// documents, validate. Returns when all of that returns.
pub fn one(path: &str) -> i32 {
    let Ok(text) = std::fs::read_to_string(path) else { return 2 };
    let Ok(v) = serde_json::from_str::<serde_json::Value>(&text) else { return 2 };
    let c = if v.get("case").is_some() { &v["case"] } else { &v };
    let Some(input) = c["input"].as_str() else {
        println!("no input in {}", path);
        return 2;
    };
    println!("layer={} input={:?}", c["layer"].as_str().unwrap_or("?"), input.chars().take(300).collect::<String>());
    let rule = match eng::load(input) {
        Ok(Load::Ok(r)) => *r,
        _ => {
            println!("the input does not load (any more)");
            return 0;
        }
    };
    let mut fields = vec![];
    if let Ok(y) = serde_yaml::from_str::<Y>(input) {
        if let Some(det) = y.get("detection") {
            rule_fields(det, &mut fields);
        }
    }
    let mut rng = Rng::new(1, "C03-one", 0);
    let docs: Vec<DVal> = (0..6).map(|_| hostile_doc(&mut rng, &fields)).collect();
    for sw in Sw::ALL16 {
        let o = if sw.0 == 0 { Ok(rule.clone()) } else { eng::optimise(&rule, sw) };
        if let Ok(o) = o {
            for d in &docs {
                let _ = eng::matches(&o, &to_yaml_map(d));
            }
            let _ = eng::validate(&o);
        }
        println!("optimise[{}] and matching returned", sw.name());
    }
    0
}

pub fn run(ctx: &Ctx) -> i32 {
    crate::c04::run(ctx, "c03")
}

fn huge_rules(rep: &mut Report) {
    // these rules are expensive by construction (automata over 10^5 needles): they run outside
    // the watchdog's view, a slow build here is not a hang
    clear_case();
    // (1) 100 000 list members under a plain key and under all()
    for key in ["k", "all(k)", "of(k, 2)"] {
        let mut t = format!("detection:\n  A:\n    '{}':\n", key);
        for i in 0..100_000 {
            t.push_str(&format!("    - '*m{}.*'\n", i));
        }
        t.push_str("  condition: A\ntrue_positives: []\ntrue_negatives: []\n");
        match eng::load(&t) {
            Ok(Load::Ok(r)) => {
                rep.count("huge.list_loaded");
                let doc = DVal::Obj(vec![("k".into(), DVal::s("_m99999._m5."))]);
                for sw in [Sw(0), Sw(15)] {
                    rep.evaluations += 1;
                    let res = if sw.0 == 0 { Ok(*r.clone()) } else { eng::optimise(&r, sw) }.and_then(|o| eng::matches(&o, &to_yaml_map(&doc)));
                    match res {
                        Ok(v) => {
                            if v != (key != "all(k)") {
                                rep.violation("verdict", "c03-huge-list-verdict", &format!("100000-member list under {} gives {} on a document containing exactly two of its members", key, v), json!({"rule": "generated: 100000 members '*m<i>.*' under the key", "key": key, "switches": sw.0}));
                            }
                        }
                        Err(p) => rep.violation("panic", &format!("c03-panic:{}", p.sig()), &format!("rule with a 100000-member list under {} panics at {}", key, p.sig()), json!({"rule": "generated: 100000 members '*m<i>.*' under the key", "key": key, "panic": p.sig()})),
                    }
                }
            }
            Ok(Load::Err(_)) => rep.count("huge.list_rejected"),
            Err(_) => rep.count("load_panicked(C04)"),
        }
    }
    // (2) more than 55 296 matrix columns
    {
        let n = 56_000;
        let mut t = String::from("detection:\n  A:\n");
        for i in 0..n {
            t.push_str(&format!("  - f{}: v\n", i));
        }
        t.push_str("  - f0: w\n  condition: A\ntrue_positives: []\ntrue_negatives: []\n");
        match eng::load(&t) {
            Ok(Load::Ok(r)) => {
                rep.count("huge.matrix_rule_loaded");
                let doc = DVal::Obj(vec![("f55999".into(), DVal::s("v"))]);
                for sw in [Sw(8), Sw(15)] {
                    rep.evaluations += 1;
                    match eng::optimise(&r, sw).and_then(|o| eng::matches(&o, &to_yaml_map(&doc))) {
                        Ok(v) => {
                            if !v {
                                rep.violation("verdict", "c03-huge-matrix-verdict", "56000-column rule does not match after optimisation", json!({"rule": "generated: sequence of 56000 one-entry mappings f<i>: v plus f0: w", "switches": sw.0}));
                            }
                        }
                        Err(p) => rep.violation("panic", &format!("c03-panic:{}", p.sig()), &format!("rule whose matrix would have {} columns panics at {} (optimise[{}])", n, p.sig(), sw.name()), json!({"rule": "generated: sequence of 56000 one-entry mappings f<i>: v plus f0: w", "switches": sw.0, "panic": p.sig()})),
                    }
                }
            }
            Ok(Load::Err(_)) => rep.count("huge.matrix_rule_rejected"),
            Err(_) => rep.count("load_panicked(C04)"),
        }
    }
    clear_case();
}
