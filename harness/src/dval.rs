//! Document model and its renderings into every representation the crate supports.


#[derive(Clone, Debug, PartialEq)]
pub enum DVal {
    Null,
    Bool(bool),
    Int(i64),
    UInt(u64),
    Float(f64),
    Str(String),
    Arr(Vec<DVal>),
    Obj(Vec<(String, DVal)>),
}

impl DVal {
    pub fn obj(entries: Vec<(&str, DVal)>) -> DVal {
        DVal::Obj(entries.into_iter().map(|(k, v)| (k.to_string(), v)).collect())
    }
    pub fn s(x: &str) -> DVal {
        DVal::Str(x.to_string())
    }
    pub fn get(&self, key: &str) -> Option<&DVal> {
        match self {
            DVal::Obj(es) => es.iter().rev().find(|(k, _)| k == key).map(|(_, v)| v),
            _ => None,
        }
    }
    pub fn set(&mut self, key: &str, v: DVal) {
        if let DVal::Obj(es) = self {
            if let Some(e) = es.iter_mut().find(|(k, _)| k == key) {
                e.1 = v;
            } else {
                es.push((key.to_string(), v));
            }
        }
    }
    pub fn remove(&mut self, key: &str) {
        if let DVal::Obj(es) = self {
            es.retain(|(k, _)| k != key);
        }
    }
    pub fn kind(&self) -> &'static str {
        match self {
            DVal::Null => "null",
            DVal::Bool(_) => "bool",
            DVal::Int(_) => "int",
            DVal::UInt(_) => "uint",
            DVal::Float(_) => "float",
            DVal::Str(_) => "str",
            DVal::Arr(_) => "arr",
            DVal::Obj(_) => "obj",
        }
    }
    /// A canonical integer kind: non-negative values are `UInt` (as YAML/JSON deliver them).
    pub fn int(i: i64) -> DVal {
        if i >= 0 {
            DVal::UInt(i as u64)
        } else {
            DVal::Int(i)
        }
    }
    /// Logical normal form: `Int(n >= 0)` and `UInt(n)` denote the same number; representations
    /// that cannot distinguish them (YAML, JSON) deliver `UInt`.
    pub fn normalised(&self) -> DVal {
        match self {
            DVal::Int(i) if *i >= 0 => DVal::UInt(*i as u64),
            DVal::Arr(a) => DVal::Arr(a.iter().map(|x| x.normalised()).collect()),
            DVal::Obj(o) => DVal::Obj(o.iter().map(|(k, v)| (k.clone(), v.normalised())).collect()),
            x => x.clone(),
        }
    }
    pub fn to_json_text(&self) -> String {
        match self {
            DVal::Null => "null".into(),
            DVal::Bool(b) => b.to_string(),
            DVal::Int(i) => format!("{}", i),
            DVal::UInt(u) => format!("{}", u),
            DVal::Float(f) => {
                if f.is_nan() {
                    "\"<NaN>\"".into()
                } else if f.is_infinite() {
                    if *f > 0.0 { "\"<+inf>\"".into() } else { "\"<-inf>\"".into() }
                } else {
                    format!("{:?}", f)
                }
            }
            DVal::Str(s) => serde_json::to_string(s).unwrap(),
            DVal::Arr(a) => format!("[{}]", a.iter().map(|x| x.to_json_text()).collect::<Vec<_>>().join(",")),
            DVal::Obj(o) => format!(
                "{{{}}}",
                o.iter()
                    .map(|(k, v)| format!("{}:{}", serde_json::to_string(k).unwrap(), v.to_json_text()))
                    .collect::<Vec<_>>()
                    .join(",")
            ),
        }
    }
    pub fn to_json_value(&self) -> serde_json::Value {
        serde_json::from_str(&self.to_json_text()).unwrap_or(serde_json::Value::Null)
    }
}

// ---------------------------------------------------------------------------------------------
// Reference path walk (the harness's own reading of `a.b[1].c`)

/// Segment of a well-formed path.
#[derive(Clone, Debug, PartialEq)]
pub struct Seg {
    pub name: String,
    pub index: Option<usize>,
}

/// Parse a well-formed path: segments separated by '.', each `name` or `name[digits]`.
/// Returns None when the key is not a well-formed path (then only totality is claimed).
pub fn parse_path(key: &str) -> Option<Vec<Seg>> {
    let mut out = vec![];
    for part in key.split('.') {
        if part.is_empty() {
            return None;
        }
        if let Some(open) = part.find('[') {
            let name = &part[..open];
            let rest = &part[open + 1..];
            if !rest.ends_with(']') || name.is_empty() {
                return None;
            }
            let digits = &rest[..rest.len() - 1];
            if digits.is_empty() || digits.len() > 19 || !digits.bytes().all(|b| b.is_ascii_digit()) {
                return None;
            }
            if name.contains(']') {
                return None;
            }
            out.push(Seg { name: name.to_string(), index: Some(digits.parse().ok()?) });
        } else {
            if part.contains(']') {
                return None;
            }
            out.push(Seg { name: part.to_string(), index: None });
        }
    }
    Some(out)
}

pub fn walk<'a>(doc: &'a DVal, path: &[Seg]) -> Option<&'a DVal> {
    let mut cur = doc;
    for seg in path {
        let next = match cur {
            DVal::Obj(_) => cur.get(&seg.name)?,
            _ => return None,
        };
        cur = match seg.index {
            None => next,
            Some(i) => match next {
                DVal::Arr(a) => a.get(i)?,
                _ => return None,
            },
        };
    }
    Some(cur)
}

/// Reference lookup of a rule key in a document object. `None` = absent.
pub fn lookup<'a>(doc: &'a DVal, key: &str) -> Option<&'a DVal> {
    let p = parse_path(key)?;
    walk(doc, &p)
}

// ---------------------------------------------------------------------------------------------
// Representation 1: serde_yaml

pub fn to_yaml(v: &DVal) -> serde_yaml::Value {
    use serde_yaml::Value as Y;
    match v {
        DVal::Null => Y::Null,
        DVal::Bool(b) => Y::Bool(*b),
        DVal::Int(i) => Y::Number((*i).into()),
        DVal::UInt(u) => Y::Number((*u).into()),
        DVal::Float(f) => Y::Number((*f).into()),
        DVal::Str(s) => Y::String(s.clone()),
        DVal::Arr(a) => Y::Sequence(a.iter().map(to_yaml).collect()),
        DVal::Obj(o) => {
            let mut m = serde_yaml::Mapping::new();
            for (k, v) in o {
                m.insert(Y::String(k.clone()), to_yaml(v));
            }
            Y::Mapping(m)
        }
    }
}

pub fn to_yaml_map(v: &DVal) -> serde_yaml::Mapping {
    match to_yaml(v) {
        serde_yaml::Value::Mapping(m) => m,
        _ => serde_yaml::Mapping::new(),
    }
}

pub fn from_yaml(v: &serde_yaml::Value) -> DVal {
    use serde_yaml::Value as Y;
    match v {
        Y::Null => DVal::Null,
        Y::Bool(b) => DVal::Bool(*b),
        Y::Number(n) => {
            if let Some(u) = n.as_u64() {
                DVal::UInt(u)
            } else if let Some(i) = n.as_i64() {
                DVal::Int(i)
            } else {
                DVal::Float(n.as_f64().unwrap_or(f64::NAN))
            }
        }
        Y::String(s) => DVal::Str(s.clone()),
        Y::Sequence(s) => DVal::Arr(s.iter().map(from_yaml).collect()),
        Y::Mapping(m) => DVal::Obj(
            m.iter()
                .map(|(k, v)| {
                    (
                        match k {
                            Y::String(s) => s.clone(),
                            other => serde_yaml::to_string(other).unwrap_or_default().trim().to_string(),
                        },
                        from_yaml(v),
                    )
                })
                .collect(),
        ),
        Y::Tagged(t) => from_yaml(&t.value),
    }
}

// ---------------------------------------------------------------------------------------------
// Representation 2/3: serde_json (not available for non-finite floats)

pub fn json_ok(v: &DVal) -> bool {
    match v {
        DVal::Float(f) => f.is_finite(),
        DVal::Arr(a) => a.iter().all(json_ok),
        DVal::Obj(o) => o.iter().all(|(_, v)| json_ok(v)),
        _ => true,
    }
}

pub fn to_json(v: &DVal) -> serde_json::Value {
    use serde_json::Value as J;
    match v {
        DVal::Null => J::Null,
        DVal::Bool(b) => J::Bool(*b),
        DVal::Int(i) => J::Number((*i).into()),
        DVal::UInt(u) => J::Number((*u).into()),
        DVal::Float(f) => serde_json::Number::from_f64(*f).map(J::Number).unwrap_or(J::Null),
        DVal::Str(s) => J::String(s.clone()),
        DVal::Arr(a) => J::Array(a.iter().map(to_json).collect()),
        DVal::Obj(o) => {
            let mut m = serde_json::Map::new();
            for (k, v) in o {
                m.insert(k.clone(), to_json(v));
            }
            J::Object(m)
        }
    }
}

/// Structural equality that treats `Int(n>=0)` and `UInt(n)` as the same number, NaN as equal
/// to NaN, and objects as unordered.
pub fn same(a: &DVal, b: &DVal) -> bool {
    match (a, b) {
        (DVal::Float(x), DVal::Float(y)) => (x.is_nan() && y.is_nan()) || x.to_bits() == y.to_bits() || x == y,
        (DVal::Int(x), DVal::UInt(y)) | (DVal::UInt(y), DVal::Int(x)) => *x >= 0 && *x as u64 == *y,
        (DVal::Arr(x), DVal::Arr(y)) => x.len() == y.len() && x.iter().zip(y).all(|(p, q)| same(p, q)),
        (DVal::Obj(x), DVal::Obj(y)) => {
            let keys = |o: &Vec<(String, DVal)>| {
                let mut k: Vec<String> = o.iter().map(|(k, _)| k.clone()).collect();
                k.sort();
                k.dedup();
                k
            };
            let kx = keys(x);
            kx == keys(y) && kx.iter().all(|k| same(a.get(k).unwrap(), b.get(k).unwrap()))
        }
        (x, y) => x == y,
    }
}
