//! C05 — condition grammar: precedence, associativity, parentheses, keyword-prefixed names.

use serde_json::json;

use crate::ast::*;
use crate::cgram;
use crate::dval::{to_yaml_map, DVal};
use crate::eng::{self, Load};
use crate::mon;
use crate::prng::Rng;
use crate::refi::{self, ts_name, Ref};
use crate::run::{finish, par_shards, Ctx, Meta, Report};

pub const NAMES: &[&str] = &["A", "android", "order", "nothing", "allow", "offline", "andy", "orb", "notary", "strong", "into", "flt1", "all_", "of", "intx", "string_", "nota", "ora", "not_admin", "or_else", "and_then", "or.x", "and[0]", "not#1", "all.x", "of_", "int_", "str.y", "flt#"];

/// every way of writing the operand sequence `ops` (in order) with and/or between items,
/// optional `not` / `not not` before items, and parenthesised sub-groups
pub fn written(ops: &[String], top: bool) -> Vec<String> {
    written_n(ops, top, false)
}

/// `stacked`: items may also carry two or three `not`s in a row (`not not X`, `not  not (..)`)
pub fn written_n(ops: &[String], top: bool, stacked: bool) -> Vec<String> {
    let k = ops.len();
    let mut out = vec![];
    let nots: &[&str] = if stacked { &["", "not ", "not not ", "not  not not "] } else { &["", "not "] };
    if k == 1 {
        return nots.iter().map(|n| format!("{}{}", n, ops[0])).collect();
    }
    // compositions of k into m >= 2 parts (m == 1 would be the bare group, produced by the caller)
    let mut comps: Vec<Vec<usize>> = vec![];
    fn rec(left: usize, cur: &mut Vec<usize>, out: &mut Vec<Vec<usize>>) {
        if left == 0 {
            if cur.len() >= 2 {
                out.push(cur.clone());
            }
            return;
        }
        for s in 1..=left {
            cur.push(s);
            rec(left - s, cur, out);
            cur.pop();
        }
    }
    rec(k, &mut vec![], &mut comps);
    for comp in comps {
        // item alternatives
        let mut items: Vec<Vec<String>> = vec![];
        let mut at = 0;
        for s in &comp {
            let sub = &ops[at..at + s];
            at += s;
            if *s == 1 {
                items.push(nots.iter().map(|n| format!("{}{}", n, sub[0])).collect());
            } else {
                let mut alts = vec![];
                for w in written_n(sub, false, stacked) {
                    for n in nots {
                        alts.push(format!("{}({})", n, w));
                    }
                }
                items.push(alts);
            }
        }
        let m = items.len();
        // cartesian product of item alternatives x operator choices
        let mut idx = vec![0usize; m];
        loop {
            for opmask in 0..(1u32 << (m - 1)) {
                let mut s = String::new();
                for (j, it) in items.iter().enumerate() {
                    if j > 0 {
                        s.push_str(if opmask & (1 << (j - 1)) != 0 { " and " } else { " or " });
                    }
                    s.push_str(&it[idx[j]]);
                }
                out.push(s);
            }
            let mut j = 0;
            while j < m {
                idx[j] += 1;
                if idx[j] < items[j].len() {
                    break;
                }
                idx[j] = 0;
                j += 1;
            }
            if j == m {
                break;
            }
        }
    }
    let _ = top;
    out
}

/// operand kinds; each operand i can be made T / F / M by the document
#[derive(Clone, Copy, Debug, PartialEq)]
pub enum OpKind {
    Ident,
    AllId,
    OfId1,
    IntEq,
    IntEqRev,
    IntGe,
    FltLt,
    StrEq,
    IntLe,
    IntGt,
    IntLt,
    FltGe,
    FltLeRev,
}

pub fn operand_text(kind: OpKind, name: &str, i: usize) -> String {
    match kind {
        OpKind::Ident => name.to_string(),
        OpKind::AllId => format!("all({})", name),
        OpKind::OfId1 => format!("of({}, 1)", name),
        OpKind::IntEq => format!("int(g{}) == 1", i),
        OpKind::IntEqRev => format!("1 == int(g{})", i),
        OpKind::IntGe => format!("int(g{}) >= 1", i),
        OpKind::FltLt => format!("flt(g{}) < 1.5", i),
        OpKind::StrEq => {
            // `string(` is the deprecated spelling of `str(`
            if i % 2 == 1 {
                format!("string(g{}) == str(h{})", i, i)
            } else {
                format!("str(g{}) == str(h{})", i, i)
            }
        }
        OpKind::IntLe => format!("int(g{}) <= 1", i),
        OpKind::IntGt => format!("int(g{}) > 1", i),
        OpKind::IntLt => format!("1 < int(g{})", i),
        OpKind::FltGe => format!("flt(g{}) >= 1.5", i),
        OpKind::FltLeRev => format!("1.5 <= flt(g{})", i),
    }
}

/// document for an assignment (0 = T, 1 = F, 2 = M)
pub fn doc_for(kinds: &[OpKind], asg: &[u8]) -> DVal {
    let mut f = vec![];
    for (i, (k, a)) in kinds.iter().zip(asg).enumerate() {
        match k {
            OpKind::Ident | OpKind::AllId | OpKind::OfId1 => match a {
                0 => f.push((format!("f{}", i), DVal::s("v"))),
                1 => f.push((format!("f{}", i), DVal::s("w"))),
                _ => {}
            },
            OpKind::IntEq | OpKind::IntEqRev => match a {
                0 => f.push((format!("g{}", i), DVal::UInt(1))),
                1 => f.push((format!("g{}", i), DVal::UInt(2))),
                _ => {}
            },
            OpKind::IntGe | OpKind::IntGt | OpKind::IntLt => match a {
                0 => f.push((format!("g{}", i), DVal::UInt(3))),
                1 => f.push((format!("g{}", i), DVal::UInt(0))),
                _ => {}
            },
            OpKind::IntLe => match a {
                0 => f.push((format!("g{}", i), DVal::UInt(0))),
                1 => f.push((format!("g{}", i), DVal::UInt(3))),
                _ => {}
            },
            OpKind::FltGe | OpKind::FltLeRev => match a {
                0 => f.push((format!("g{}", i), DVal::Float(2.5))),
                1 => f.push((format!("g{}", i), DVal::Float(0.5))),
                _ => {}
            },
            OpKind::FltLt => match a {
                0 => f.push((format!("g{}", i), DVal::Float(0.5))),
                1 => f.push((format!("g{}", i), DVal::Float(2.5))),
                _ => {}
            },
            OpKind::StrEq => match a {
                0 => {
                    f.push((format!("g{}", i), DVal::s("x")));
                    f.push((format!("h{}", i), DVal::s("x")));
                }
                1 => {
                    f.push((format!("g{}", i), DVal::s("x")));
                    f.push((format!("h{}", i), DVal::s("y")));
                }
                _ => {}
            },
        }
    }
    DVal::Obj(f)
}

pub fn rule_ast(names: &[String], cond: Cond) -> RuleAst {
    RuleAst {
        idents: names.iter().enumerate().map(|(i, n)| (n.clone(), Ident::Map(vec![(Key::plain(&format!("f{}", i)), RVal::Str("v".into()))]))).collect(),
        cond,
        tp: vec![],
        tn: vec![],
    }
}

pub fn rule_text(names: &[String], cond_text: &str) -> String {
    let mut s = String::from("detection:\n");
    for (i, n) in names.iter().enumerate() {
        s.push_str(&format!("  {}:\n    f{}: v\n", n, i));
    }
    s.push_str(&format!("  condition: '{}'\ntrue_positives: []\ntrue_negatives: []\n", cond_text));
    s
}

pub struct Checked {
    pub ok: bool,
}

/// Check one condition text over all (or sampled) assignments.
pub fn check_condition(rep: &mut Report, rf: &Ref, names: &[String], kinds: &[OpKind], cond_text: &str, asgs: &[Vec<u8>], structural: bool) -> Checked {
    let reference = match cgram::parse(cond_text) {
        Ok(c) => c,
        Err(_) => {
            rep.count("reference_rejects");
            return Checked { ok: false };
        }
    };
    let text = rule_text(names, cond_text);
    let rule = match eng::load(&text) {
        Ok(Load::Ok(r)) => *r,
        Ok(Load::Err(e)) => {
            rep.violation("rejected", &format!("c05-rejected:{}", shape(cond_text)), &format!("condition valid by the fixed grammar is rejected: {} ({})", cond_text, e), json!({"rule": text, "expected": "load-ok"}));
            return Checked { ok: false };
        }
        Err(p) => {
            rep.violation("panic", &format!("panic:{}", p.sig()), &format!("load panicked: {}", p.sig()), json!({"rule": text}));
            return Checked { ok: false };
        }
    };
    rep.count("conditions_loaded");
    let ast = rule_ast(names, reference.clone());
    let stripped = cgram::strip_parens(&reference);
    // non-trivial: the tree depends on the precedence table or on the reach of `not`
    let alt1 = cgram::parse_with(cond_text, true, false).ok().map(|c| cgram::strip_parens(&c));
    let alt2 = cgram::parse_with(cond_text, false, true).ok().map(|c| cgram::strip_parens(&c));
    let nontrivial = alt1.as_ref() != Some(&stripped) || alt2.as_ref() != Some(&stripped);
    if nontrivial {
        rep.nontrivial_key(&shape(cond_text));
    }
    if structural {
        match cgram::from_engine(&rule.detection.expression) {
            Some(tree) => {
                rep.count("structural_comparisons");
                if tree != stripped {
                    rep.violation(
                        "structure",
                        &format!("c05-structure:{}", shape(cond_text)),
                        &format!("parsed tree of '{}' is {} but the fixed grammar gives {}", cond_text, tree.text(), stripped.text()),
                        json!({"rule": text, "engine_tree": tree.text(), "reference_tree": stripped.text(), "printed": format!("{}", rule.detection.expression)}),
                    );
                    return Checked { ok: false };
                }
            }
            None => rep.count("structural_unavailable"),
        }
    }
    for asg in asgs {
        let doc = doc_for(kinds, asg);
        let m = to_yaml_map(&doc);
        let exp = rf.eval_cond(&ast, &reference, &doc);
        let got3 = match eng::solve3(&rule, &m) {
            Ok(c) => c,
            Err(p) => {
                rep.violation("panic", &format!("panic:{}", p.sig()), &format!("matches panicked: {}", p.sig()), mon::case(&text, &doc, None, json!("no-panic"), json!(p.sig()), json!({})));
                return Checked { ok: false };
            }
        };
        rep.evaluations += 1;
        if refi::from_code(got3) & exp == 0 {
            let an: String = asg.iter().map(|v| ["T", "F", "M"][*v as usize]).collect();
            rep.violation(
                "meaning",
                &format!("c05-meaning:{}", shape(cond_text)),
                &format!("'{}' under operands {} evaluates to {} but the fixed grammar gives {}", cond_text, an, ts_name(refi::from_code(got3)), ts_name(exp)),
                mon::case(&text, &doc, None, json!(refi::verdict(exp)), json!(got3 == 1), json!({"assignment": an, "reference_tree": stripped.text()})),
            );
            return Checked { ok: false };
        }
    }
    Checked { ok: true }
}

/// token-kind shape of a condition, for distinct counting and signatures
pub fn shape(cond: &str) -> String {
    match cgram::tokens(cond) {
        Ok(ts) => ts
            .iter()
            .map(|t| match t {
                cgram::Tok::And => "&",
                cgram::Tok::Or => "|",
                cgram::Tok::Not => "!",
                cgram::Tok::LPar => "(",
                cgram::Tok::RPar => ")",
                cgram::Tok::Comma => ",",
                cgram::Tok::Cmp(_) => "~",
                cgram::Tok::Int(_) | cgram::Tok::Flt(_) => "n",
                cgram::Tok::Name(_) => "x",
                cgram::Tok::Fun(f) => f,
            })
            .collect::<Vec<_>>()
            .join(""),
        Err(_) => "?".into(),
    }
}

pub fn all_assignments(k: usize) -> Vec<Vec<u8>> {
    (0..3usize.pow(k as u32))
        .map(|mut c| {
            (0..k)
                .map(|_| {
                    let d = (c % 3) as u8;
                    c /= 3;
                    d
                })
                .collect()
        })
        .collect()
}

fn spaced(cond: &str, rng: &mut Rng) -> String {
    let mut s = String::new();
    for _ in 0..rng.below(3) {
        s.push(' ');
    }
    for c in cond.chars() {
        s.push(c);
        if c == ' ' {
            for _ in 0..rng.below(3) {
                s.push(' ');
            }
        }
    }
    for _ in 0..rng.below(3) {
        s.push(' ');
    }
    // spaces just inside parentheses and around commas
    s.replace('(', if rng.chance(50) { "( " } else { "(" }).replace(')', if rng.chance(50) { " )" } else { ")" })
}

fn reparen(cond: &str, names: &[String], rng: &mut Rng) -> String {
    // wrap one operand name, or the whole condition, in redundant parentheses
    if rng.chance(30) {
        return format!("({})", cond);
    }
    let n = rng.pick(names);
    // only whole-token occurrences
    let mut out = String::new();
    let mut rest = cond;
    let mut done = false;
    while let Some(pos) = rest.find(n.as_str()) {
        let before_ok = pos == 0 || !rest[..pos].chars().last().map(|c| c.is_alphanumeric() || c == '_' || c == '(').unwrap_or(false);
        let after = &rest[pos + n.len()..];
        let after_ok = after.is_empty() || after.starts_with(' ') || after.starts_with(')');
        if before_ok && after_ok && !done {
            out.push_str(&rest[..pos]);
            out.push_str(&format!("({})", n));
            done = true;
        } else {
            out.push_str(&rest[..pos + n.len()]);
        }
        rest = after;
    }
    out.push_str(rest);
    out
}

pub fn run(ctx: &Ctx) -> i32 {
    let max_k = ctx.size(4, 5);
    // exhaustive part: operand sequences of length 1..max_k
    let mut work: Vec<(usize, usize)> = vec![]; // (k, name offset)
    for k in 1..=max_k {
        // every name offset for the small arities; a spread of offsets for the largest one
        let step = if k == max_k { ctx.size(5, 2) } else { 1 };
        for off in (0..NAMES.len()).step_by(step) {
            work.push((k, off));
        }
    }
    let random_shards = ctx.size(16, 64);
    let rf = Ref::default();
    let nwork = work.len();
    let rep = par_shards(ctx, nwork + random_shards, |wi| {
        let mut rep = Report::new();
        if wi < nwork {
            let (k, off) = work[wi];
            let names: Vec<String> = (0..k).map(|i| NAMES[(i * 7 + off) % NAMES.len()].to_string()).collect();
            let mut uniq = names.clone();
            uniq.sort();
            uniq.dedup();
            if uniq.len() != names.len() {
                return rep;
            }
            let kinds = vec![OpKind::Ident; k];
            let asgs = all_assignments(k);
            let mut rng = Rng::new(ctx.seed, "C05x", wi as u64);
            let mut conds = written(&names, true);
            if k <= 3 {
                // stacked negations (`not not X`, three in a row) for the short conditions
                let extra = written_n(&names, true, true);
                rep.add("stacked_negation_conditions", extra.len() as u64);
                conds.extend(extra);
            }
            if (2..=3).contains(&k) && off < 8 {
                // the same identifier more than once in one condition: every operand sequence of
                // length k+1 (k+2 for two names) over the k names that uses each name
                let mut n_rep = 0u64;
                for len in (k + 1)..=(if k == 2 { 4 } else { 4 }) {
                    for code in 0..k.pow(len as u32) {
                        let mut c = code;
                        let seq: Vec<usize> = (0..len).map(|_| { let d = c % k; c /= k; d }).collect();
                        // (the sequences are dealt out over eight work items; with different names each)
                        if (0..k).any(|i| !seq.contains(&i)) || code % 8 != off {
                            continue;
                        }
                        let ops: Vec<String> = seq.iter().map(|i| names[*i].clone()).collect();
                        let w = written(&ops, true);
                        n_rep += w.len() as u64;
                        conds.extend(w);
                    }
                }
                rep.add("repeated_operand_conditions", n_rep);
            }
            rep.add("exhaustive_conditions", conds.len() as u64);
            for c in &conds {
                if ctx.expired() {
                    rep.truncated = true;
                    break;
                }
                let r = check_condition(&mut rep, &rf, &names, &kinds, c, &asgs, true);
                if !r.ok {
                    continue;
                }
                // metamorphic variants: same tree, same meaning
                for variant in [spaced(c, &mut rng), reparen(c, &names, &mut rng)] {
                    if variant != *c {
                        rep.count("metamorphic_variants");
                        let base = cgram::strip_parens(&cgram::parse(c).unwrap());
                        match cgram::parse(&variant) {
                            Ok(v) if cgram::strip_parens(&v) == base => {
                                check_condition(&mut rep, &rf, &names, &kinds, &variant, &asgs, true);
                            }
                            _ => rep.count("variant_generator_mismatch"),
                        }
                    }
                }
                if rep.samples.is_empty() && c.len() > 18 {
                    rep.sample(json!({"condition": c, "assignments": asgs.len(), "reference_tree": cgram::strip_parens(&cgram::parse(c).unwrap()).text()}));
                }
            }
        } else {
            // random part: other operand kinds, more operands, sampled assignments
            let mut rng = Rng::new(ctx.seed, "C05r", wi as u64);
            let n = ctx.size(2000, 40000);
            for _ in 0..n {
                if ctx.expired() {
                    rep.truncated = true;
                    break;
                }
                let span = if rng.chance(70) { 3 } else { 7 };
                let k = 2 + rng.below(span);
                let off = rng.below(NAMES.len());
                let names: Vec<String> = (0..k).map(|i| NAMES[(i + off) % NAMES.len()].to_string()).collect();
                let kinds: Vec<OpKind> = (0..k)
                    .map(|_| *rng.pick(&[OpKind::Ident, OpKind::Ident, OpKind::Ident, OpKind::AllId, OpKind::OfId1, OpKind::IntEq, OpKind::IntEqRev, OpKind::IntGe, OpKind::FltLt, OpKind::StrEq, OpKind::IntLe, OpKind::IntGt, OpKind::IntLt, OpKind::FltGe, OpKind::FltLeRev]))
                    .collect();
                let ops: Vec<String> = (0..k).map(|i| operand_text(kinds[i], &names[i], i)).collect();
                let cond = random_written(&ops, &mut rng);
                let asgs: Vec<Vec<u8>> = if k <= 4 { all_assignments(k) } else { (0..60).map(|_| (0..k).map(|_| rng.below(3) as u8).collect()).collect() };
                let c = if rng.chance(30) { spaced(&cond, &mut rng) } else { cond };
                check_condition(&mut rep, &rf, &names, &kinds, &c, &asgs, true);
                rep.count("random_conditions");
            }
        }
        rep
    });
    let mut rep = rep;
    crate::regress::replay_witnesses(ctx, &mut rep);
    if rep.get("structural_comparisons") == 0 {
        rep.inconclusive.push("structural oracle never ran".into());
    }
    finish(
        ctx,
        rep,
        Meta {
            rule: format!("complete enumeration of every way to write 1..{} operands with and/or, optional not before operands and groups (up to three operands also two or three nots in a row; two or three identifiers also with one of them written twice), and every parenthesisation, over keyword-prefixed identifier names, x all 3^k assignments of true/false/missing; plus redundant-parenthesis and extra-space variants; plus random conditions with 2..8 operands of every operand kind (identifier, all(), of(), int/flt/str cast comparisons). Oracles: the harness's own precedence-climbing parser evaluated with the C06 tables (meaning), and node-for-node comparison with the engine's parsed Expression tree (structure / associativity). non-trivial = tree changes under a swapped and/or table or a loose not; distinct by token-kind sequence", max_k),
            exhaustive: true,
            assumptions: vec!["keywords are written with their trailing delimiter as the tokeniser documents; extra spaces are U+0020".into()],
            min_nontrivial: 30,
            extra: json!({}),
        },
    )
}

fn random_written(ops: &[String], rng: &mut Rng) -> String {
    if ops.len() == 1 {
        return if rng.chance(25) { format!("not {}", wrap_cmp(&ops[0])) } else { ops[0].clone() };
    }
    let mut parts: Vec<String> = vec![];
    let mut at = 0;
    while at < ops.len() {
        let left = ops.len() - at;
        let s = if left == ops.len() { 1 + rng.below(left - 1) } else { 1 + rng.below(left) };
        let sub = &ops[at..at + s];
        at += s;
        if s == 1 {
            parts.push(if rng.chance(25) { format!("not {}", wrap_cmp(&sub[0])) } else { sub[0].clone() });
        } else {
            let inner = random_written(sub, rng);
            parts.push(if rng.chance(30) { format!("not ({})", inner) } else { format!("({})", inner) });
        }
    }
    let mut s = String::new();
    for (j, p) in parts.iter().enumerate() {
        if j > 0 {
            s.push_str(if rng.chance(50) { " and " } else { " or " });
        }
        s.push_str(p);
    }
    s
}

/// `not` binds tighter than a comparison, so a negated comparison must be parenthesised
fn wrap_cmp(op: &str) -> String {
    if op.contains("==") || op.contains('<') || op.contains('>') {
        format!("({})", op)
    } else {
        op.to_string()
    }
}
