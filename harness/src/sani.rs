//! Small, clock-free, file-free workloads for the sanitizer stages (Miri above all, where one
//! case costs tens of milliseconds): `tmon sani <load|eval|threads> <seed> <count>`.
//! Engine panics are caught and counted (they are the panic monitors' subject); what these
//! stages look for is undefined behaviour / memory errors / data races reported by the tool.

use crate::c03;
use crate::c04;
use crate::dval::{to_yaml_map, DVal};
use crate::eng::{self, Load, Sw};
use crate::gen::{self, GenCfg};
use crate::prng::Rng;

const EMBEDDED_RULES: &[&str] = &[
    "detection:\n  A:\n    foo: 'foo*'\n    bar: '*bar'\n  B:\n    foobar:\n    - foobar\n    - foobaz\n  condition: A and B\ntrue_positives:\n- foo: foobar\n  bar: foobar\n  foobar: foobar\ntrue_negatives:\n- foo: bar\n",
    "detection:\n  A:\n    all(phrase):\n    - '*quick*'\n    - '*brown*'\n  B:\n    phrase: ibear\n  condition: A and not B\ntrue_positives: []\ntrue_negatives: []\n",
    "---\ndetection:\n  condition: all(selection)\n  selection:\n    - in:\n        - 1\n        - 2\n    - out: foo*\n    - out: '*bar'\ntrue_positives: []\ntrue_negatives: []\n",
];

pub fn run(args: &[String]) -> i32 {
    let what = args.first().map(|s| s.as_str()).unwrap_or("load");
    let seed: u64 = args.get(1).and_then(|s| s.parse().ok()).unwrap_or(1);
    let count: usize = args.get(2).and_then(|s| s.parse().ok()).unwrap_or(50);
    let mut rng = Rng::new(seed, "sani", 0);
    let (mut cases, mut loaded, mut panics) = (0u64, 0u64, 0u64);
    match what {
        "load" => {
            for i in 0..count {
                let (layer, input) = match i % 6 {
                    0 => ("cond", c04::random_string(&mut rng, c04::COND_SYMS, 10)),
                    1 => ("pattern", c04::random_string(&mut rng, c04::PAT_SYMS, 6)),
                    2 => ("key", c04::random_string(&mut rng, c04::KEY_SYMS, 6)),
                    3 => ("yaml-value", serde_yaml::to_string(&c04::random_rule_value(&mut rng)).unwrap_or_default()),
                    4 => ("yaml-text", {
                        let t = EMBEDDED_RULES[rng.below(EMBEDDED_RULES.len())];
                        c04::mutate_text(&mut rng, t)
                    }),
                    _ => ("pattern", c04::HOSTILE_STRS[rng.below(c04::HOSTILE_STRS.len())].to_string()),
                };
                cases += 1;
                match c04::exec_layer(layer, &input) {
                    c04::Outcome::Accepted => loaded += 1,
                    c04::Outcome::Panicked(_) => panics += 1,
                    _ => {}
                }
            }
        }
        "eval" => {
            let cfg = GenCfg::default();
            for _ in 0..count {
                let mut ast = gen::gen_rule(&mut rng, &cfg);
                let names: Vec<String> = ast.idents.iter().map(|(n, _)| n.clone()).collect();
                let leaves = gen::collect_leaves(&ast);
                ast.tp = vec![gen::gen_doc(&mut rng, &leaves)];
                let mut v = ast.to_yaml_value();
                if rng.chance(40) {
                    let c = c03::hostile_condition(&mut rng, &ast.cond, &names);
                    if let Some(serde_yaml::Value::Mapping(det)) = v.get_mut("detection") {
                        det.insert("condition".into(), c.into());
                    }
                }
                if rng.chance(40) {
                    c03::damage_identifiers(&mut rng, &mut v);
                }
                let Ok(text) = serde_yaml::to_string(&v) else { continue };
                cases += 1;
                let rule = match eng::load(&text) {
                    Ok(Load::Ok(r)) => *r,
                    Ok(Load::Err(_)) => continue,
                    Err(_) => {
                        panics += 1;
                        continue;
                    }
                };
                loaded += 1;
                let mut fields = vec![];
                if let Some(det) = v.get("detection") {
                    c03::rule_fields(det, &mut fields);
                }
                let docs: Vec<DVal> = vec![gen::gen_doc(&mut rng, &leaves), c03::hostile_doc(&mut rng, &fields)];
                for sw in [Sw(0), Sw(15), Sw(2), Sw(8), Sw(5)] {
                    match if sw.0 == 0 { Ok(rule.clone()) } else { eng::optimise(&rule, sw) } {
                        Ok(o) => {
                            for d in &docs {
                                if eng::matches(&o, &to_yaml_map(d)).is_err() {
                                    panics += 1;
                                }
                            }
                        }
                        Err(_) => panics += 1,
                    }
                }
                if eng::validate(&rule).is_err() {
                    panics += 1;
                }
            }
        }
        "threads" => {
            let cfg = GenCfg { share_fields: 85, ..Default::default() };
            for _ in 0..count {
                let ast = gen::gen_rule(&mut rng, &cfg);
                let Some(text) = ast.to_text() else { continue };
                let Some(rule) = eng::load_ok(&text) else { continue };
                loaded += 1;
                let leaves = gen::collect_leaves(&ast);
                let docs: Vec<DVal> = (0..4).map(|_| gen::gen_doc(&mut rng, &leaves)).collect();
                for r in [rule.clone(), eng::optimise(&rule, Sw(15)).unwrap_or(rule.clone())] {
                    let base: Vec<bool> = docs.iter().map(|d| eng::matches(&r, &to_yaml_map(d)).unwrap_or(false)).collect();
                    let bad = std::sync::atomic::AtomicBool::new(false);
                    std::thread::scope(|s| {
                        for t in 0..3usize {
                            let (r, docs, base, bad) = (&r, &docs, &base, &bad);
                            s.spawn(move || {
                                for k in 0..docs.len() {
                                    let i = (k + t) % docs.len();
                                    let rec = crate::reps::to_rec(&docs[i], None, true);
                                    if eng::matches(r, &rec).unwrap_or(!base[i]) != base[i] {
                                        bad.store(true, std::sync::atomic::Ordering::SeqCst);
                                    }
                                    cases_inc();
                                }
                            });
                        }
                    });
                    if bad.load(std::sync::atomic::Ordering::SeqCst) {
                        println!("SANI thread-dependent verdict for rule:\n{}", text);
                        return 1;
                    }
                }
                cases += 1;
            }
        }
        _ => return 2,
    }
    println!("SANI ok workload={} seed={} cases={} loaded={} engine_panics_caught={}", what, seed, cases, loaded, panics);
    0
}

fn cases_inc() {}
