//! C08 — list quantifiers count the members the author wrote. Oracle: the same rule written out
//! with explicit and/or/not over one-member identifiers (expansion differential inside the
//! engine) and the reference interpreter.

use serde_json::json;

use crate::ast::*;
use crate::dval::{to_yaml_map, DVal};
use crate::eng;
use crate::gen;
use crate::mon;
use crate::prng::Rng;
use crate::refi::{self, Ref};
use crate::run::{finish, par_shards, Ctx, Meta, Report};

#[derive(Clone, Debug, PartialEq)]
pub enum Q {
    Plain,
    All,
    Of(u64),
}

fn chain(ops: Vec<Cond>, and: bool) -> Cond {
    let mut it = ops.into_iter();
    let mut c = it.next().unwrap();
    for x in it {
        c = if and { Cond::and(c, x) } else { Cond::or(c, x) };
    }
    c
}

fn subsets(k: usize, n: usize) -> Vec<Vec<usize>> {
    let mut out = vec![];
    for mask in 0u32..(1 << k) {
        if mask.count_ones() as usize == n {
            out.push((0..k).filter(|i| mask & (1 << i) != 0).collect());
        }
    }
    out
}

/// the quantifier written out over identifiers M0..Mk-1; None = "can never be true"
pub fn expansion(q: &Q, k: usize) -> Option<Cond> {
    let ids: Vec<Cond> = (0..k).map(|i| Cond::id(&format!("M{}", i))).collect();
    match q {
        Q::Plain => Some(chain(ids, false)),
        Q::All => Some(chain(ids, true)),
        Q::Of(0) => Some(Cond::not(chain(ids, false))),
        Q::Of(n) => {
            let n = *n as usize;
            if n > k {
                return None;
            }
            let terms: Vec<Cond> = subsets(k, n).into_iter().map(|s| chain(s.into_iter().map(|i| ids[i].clone()).collect(), true)).collect();
            Some(chain(terms, false))
        }
    }
}

fn kmod(q: &Q) -> KMod {
    match q {
        Q::Plain => KMod::None,
        Q::All => KMod::All,
        Q::Of(n) => KMod::Of(*n),
    }
}

/// member families whose members can be made true independently by a scalar field value
#[derive(Clone, Copy, Debug, PartialEq)]
pub enum Fam {
    Contains,
    IContains,
    Regex,
    IRegex,
    MixedStrings,
    Prefixes,
    Thresholds,
    Numbers,
    Nested,
    Exact,
    /// one text under the regex wildcard spellings the rewrite pass strips (`.*x`, `x.*`, `.*x.*`, `x`)
    RegexWild,
}

pub fn members(f: Fam, k: usize, dup: bool) -> Vec<RVal> {
    let mut v: Vec<RVal> = (0..k)
        .map(|i| match f {
            Fam::Contains => RVal::Str(format!("*t{}.*", i)),
            Fam::IContains => RVal::Str(format!("i*T{}.*", i)),
            Fam::Regex => RVal::Str(format!("?t{}\\.", i)),
            Fam::IRegex => RVal::Str(format!("i?T{}\\.", i)),
            Fam::MixedStrings => RVal::Str(match i % 5 {
                0 => format!("*t{}.*", i),
                1 => format!("i*T{}.*", i),
                2 => format!("?t{}\\.", i),
                3 => format!("i?T{}\\.", i),
                _ => format!("*t{}.", i),
            }),
            // t0. , t0.t1. , ... : true members are a prefix-closed set
            Fam::Prefixes => RVal::Str(format!("{}*", (0..=i).map(|j| format!("t{}.", j)).collect::<String>())),
            Fam::Thresholds => RVal::Str(format!(">={}", (i + 1) * 10)),
            Fam::Numbers => RVal::Int((i as i64 + 1) * 10),
            Fam::Nested => RVal::Map(vec![(Key::plain(&format!("a{}", i)), RVal::Str("v".into()))]),
            Fam::Exact => RVal::Str(format!("t{}.", i)),
            Fam::RegexWild => RVal::Str(match i % 4 {
                0 => format!("?.*t{}\\.", i),
                1 => format!("?t{}\\..*", i),
                2 => format!("?.*t{}\\..*", i),
                _ => format!("?t{}\\.", i),
            }),
        })
        .collect();
    if dup && k >= 1 {
        // (for the wildcard family the repeated member is member 0 under another spelling: still
        // a member of its own, true exactly when member 0 is)
        let d = if f == Fam::RegexWild { RVal::Str("?t0\\..*".into()) } else { v[0].clone() };
        v.push(d);
    }
    v
}

/// the field value that makes exactly the members in `mask` true (None if the family cannot)
pub fn value_for(f: Fam, k: usize, mask: u32) -> Option<DVal> {
    let bits: Vec<bool> = (0..k).map(|i| mask & (1 << i) != 0).collect();
    match f {
        Fam::Contains | Fam::IContains | Fam::Regex | Fam::IRegex | Fam::MixedStrings | Fam::RegexWild => {
            if matches!(f, Fam::MixedStrings) && k >= 5 && bits[4] {
                // the suffix member (index 4) needs its token last
                let mut s: String = bits.iter().enumerate().filter(|(i, b)| **b && *i != 4).map(|(i, _)| format!("t{}.", i)).collect();
                s.push_str("t4.");
                return Some(DVal::Str(format!("_{}", s)));
            }
            let s: String = bits.iter().enumerate().filter(|(_, b)| **b).map(|(i, _)| format!("t{}.", i)).collect();
            Some(DVal::Str(format!("_{}_", s)))
        }
        Fam::Prefixes => {
            let n = bits.iter().take_while(|b| **b).count();
            if bits.iter().skip(n).any(|b| *b) {
                return None;
            }
            Some(DVal::Str(format!("{}#", (0..n).map(|j| format!("t{}.", j)).collect::<String>())))
        }
        Fam::Thresholds => {
            let n = bits.iter().take_while(|b| **b).count();
            if bits.iter().skip(n).any(|b| *b) {
                return None;
            }
            Some(DVal::UInt(n as u64 * 10 + 5))
        }
        Fam::Numbers => match bits.iter().filter(|b| **b).count() {
            0 => Some(DVal::UInt(7)),
            1 => Some(DVal::UInt((bits.iter().position(|b| *b).unwrap() as u64 + 1) * 10)),
            _ => None,
        },
        Fam::Exact => match bits.iter().filter(|b| **b).count() {
            0 => Some(DVal::s("_t0.")), // ends with a member without being equal to it
            1 => Some(DVal::Str(format!("t{}.", bits.iter().position(|b| *b).unwrap()))),
            _ => None,
        },
        Fam::Nested => Some(DVal::Obj(bits.iter().enumerate().map(|(i, b)| (format!("a{}", i), DVal::s(if *b { "v" } else { "w" }))).collect())),
    }
}

fn check_pair(rep: &mut Report, rf: &Ref, qa: &RuleAst, ea: Option<&RuleAst>, doc: &DVal, label: &str, ntrue: Option<usize>, n: Option<u64>) {
    let Some(qt) = qa.to_text() else { return };
    let Some(qr) = eng::load_ok(&qt) else {
        rep.count("quantified_rule_rejected");
        return;
    };
    let m = to_yaml_map(doc);
    let got = match eng::matches(&qr, &m) {
        Ok(v) => v,
        Err(p) => {
            rep.violation("panic", &format!("panic:{}", p.sig()), &format!("quantified rule panicked: {}", p.sig()), mon::case(&qt, doc, None, json!("no-panic"), json!(p.sig()), json!({})));
            return;
        }
    };
    rep.evaluations += 1;
    if let (Some(t), Some(n)) = (ntrue, n) {
        if (t as i64 - n as i64).abs() <= 1 {
            rep.nontrivial_key(&format!("{}|{}|{}", label, n, t));
        }
    } else {
        rep.nontrivial_key(&format!("{}|{}", label, doc.to_json_text()));
    }
    // oracle 1: the written-out rule
    let expanded: Option<bool> = match ea {
        Some(ea) => ea.to_text().and_then(|t| eng::load_ok(&t)).and_then(|r| eng::matches(&r, &m).ok()),
        None => Some(false),
    };
    if let Some(e) = expanded {
        rep.evaluations += 1;
        if e != got {
            rep.violation(
                "expansion",
                &format!("c08-expansion:{}", label),
                &format!("{}: quantified rule gives {} , written out with and/or/not gives {} on {}", label, got, e, doc.to_json_text()),
                mon::case(&qt, doc, None, json!(e), json!(got), json!({"expansion": ea.and_then(|x| x.to_text())})),
            );
            return;
        }
    }
    // oracle 2: member counting over the AST
    let exp = rf.eval_rule(qa, doc);
    // (nested-mapping members over an array: the reference leaves quantifiers on array fields
    // open, but each member's meaning - some element satisfies it - is fixed, so the written-out
    // rule is the oracle for the optimised forms too)
    let decided = refi::verdict(exp).or(if label.contains("nested-over") { expanded } else { None });
    if let Some(w) = decided {
        if w != got {
            rep.violation("reference", &format!("c08-reference:{}", label), &format!("{}: engine {} , member counting gives {} on {}", label, got, refi::ts_name(exp), doc.to_json_text()), mon::case(&qt, doc, None, json!(w), json!(got), json!({})));
            return;
        }
        // "however the members are batched internally": the optimiser re-batches and rewrites the
        // members of a key list; the count stays the authors' (key-level quantifiers only: what
        // the passes do to a condition-level quantifier is C01's open finding)
        if label.starts_with("key ") {
            for sw in [eng::Sw(15), eng::Sw(4), eng::Sw(6), eng::Sw(2)] {
                rep.evaluations += 1;
                if let Ok(o) = eng::optimise(&qr, sw) {
                    if let Ok(v) = eng::matches(&o, &m) {
                        if v != w {
                            rep.violation("reference", &format!("c08-reference-opt:{}", label), &format!("{}: optimised [{}] engine {} , member counting gives {} on {}", label, sw.name(), v, refi::ts_name(exp), doc.to_json_text()), mon::case(&qt, doc, Some(sw), json!(w), json!(v), json!({})));
                            return;
                        }
                    }
                }
            }
        }
    }
}

/// wide lists (k >= 63): sampled member-truth sets, reference oracle only (writing the rule out
/// would need a condition nested deeper than the property's bound)
fn wide(rep: &mut Report, rf: &Ref, f: Fam, k: usize) {
    let ms = members(f, k, false);
    let tok = |i: usize| format!("t{}.", i);
    let mut docs: Vec<(DVal, usize)> = vec![];
    let sets: Vec<Vec<usize>> = vec![vec![], vec![0], vec![k - 1], vec![k / 2], vec![0, k - 1], vec![62.min(k - 1), k - 1], vec![63.min(k - 1)], (0..k).collect(), (0..k - 1).collect(), (1..k).collect()];
    for set in sets {
        let v = match f {
            Fam::Contains | Fam::IContains | Fam::Regex => Some(DVal::Str(format!("_{}_", set.iter().map(|i| tok(*i)).collect::<String>()))),
            Fam::Exact => match set.len() {
                0 => Some(DVal::Str(format!("_{}", tok(k - 1)))),
                1 => Some(DVal::Str(tok(set[0]))),
                _ => None,
            },
            Fam::Prefixes => {
                // true members are 0..n
                let n = set.len();
                if set.iter().enumerate().all(|(i, x)| i == *x) {
                    Some(DVal::Str(format!("{}#", (0..n).map(tok).collect::<String>())))
                } else {
                    None
                }
            }
            _ => None,
        };
        if let Some(v) = v {
            docs.push((DVal::Obj(vec![("k".into(), v)]), set.len()));
        }
    }
    if f == Fam::Exact {
        // near misses: ends with / starts with a member
        docs.push((DVal::Obj(vec![("k".into(), DVal::Str(format!("x{}", tok(k / 2))))]), 0));
        docs.push((DVal::Obj(vec![("k".into(), DVal::Str(format!("{}x", tok(k - 1))))]), 0));
    }
    let kk = k as u64;
    for q in [Q::Plain, Q::All, Q::Of(0), Q::Of(1), Q::Of(2), Q::Of(kk - 1), Q::Of(kk), Q::Of(kk + 1)] {
        let qa = RuleAst { idents: vec![("A".into(), Ident::Map(vec![(Key::with("k", kmod(&q)), RVal::List(ms.clone()))]))], cond: Cond::id("A"), tp: vec![], tn: vec![] };
        for (doc, ntrue) in &docs {
            let n = match &q {
                Q::Of(n) => *n,
                Q::All => kk,
                Q::Plain => 1,
            };
            check_pair_ref_only(rep, rf, &qa, doc, &format!("wide key {:?} {:?} k={}", q, f, k), *ntrue, n);
        }
    }
    rep.count("wide_lists");
}

fn check_pair_ref_only(rep: &mut Report, rf: &Ref, qa: &RuleAst, doc: &DVal, label: &str, ntrue: usize, n: u64) {
    let Some(qt) = qa.to_text() else { return };
    let Some(qr) = eng::load_ok(&qt) else {
        rep.count("quantified_rule_rejected");
        return;
    };
    let m = to_yaml_map(doc);
    rep.evaluations += 1;
    let got = match eng::matches(&qr, &m) {
        Ok(v) => v,
        Err(p) => {
            rep.violation("panic", &format!("panic:{}", p.sig()), &format!("quantified rule panicked: {}", p.sig()), mon::case(&qt, doc, None, json!("no-panic"), json!(p.sig()), json!({})));
            return;
        }
    };
    rep.nontrivial_key(&format!("{}|{}|{}", label, n, ntrue));
    let exp = rf.eval_rule(qa, doc);
    if let Some(w) = refi::verdict(exp) {
        if w != got {
            rep.violation("reference", &format!("c08-reference:{}", label), &format!("{}: engine {} , member counting gives {} ({} members true, threshold {}) on {}", label, got, refi::ts_name(exp), ntrue, n, doc.to_json_text().chars().take(120).collect::<String>()), mon::case(&qt, doc, None, json!(w), json!(got), json!({})));
        }
    }
}

fn key_rules(q: &Q, ms: &[RVal]) -> (RuleAst, Option<RuleAst>) {
    let qa = RuleAst { idents: vec![("A".into(), Ident::Map(vec![(Key::with("k", kmod(q)), RVal::List(ms.to_vec()))]))], cond: Cond::id("A"), tp: vec![], tn: vec![] };
    let ea = expansion(q, ms.len()).map(|c| RuleAst { idents: ms.iter().enumerate().map(|(i, m)| (format!("M{}", i), Ident::Map(vec![(Key::plain("k"), m.clone())]))).collect(), cond: c, tp: vec![], tn: vec![] });
    (qa, ea)
}

/// condition-level quantifier over identifier X with the given entries (as a sequence of
/// one-entry mappings, or as one mapping)
fn ident_rules(q: &Q, entries: &[(Key, RVal)], as_seq: bool) -> (RuleAst, Option<RuleAst>) {
    let x = if as_seq { Ident::Seq(entries.iter().map(|e| vec![e.clone()]).collect()) } else { Ident::Map(entries.to_vec()) };
    let cond = match q {
        Q::Plain => Cond::id("X"),
        Q::All => Cond::All("X".into()),
        Q::Of(n) => Cond::Of("X".into(), *n),
    };
    let qa = RuleAst { idents: vec![("X".into(), x)], cond, tp: vec![], tn: vec![] };
    // a plain mapping is a conjunction, a plain sequence a disjunction
    let eq = if *q == Q::Plain && !as_seq { Q::All } else { q.clone() };
    let ea = expansion(&eq, entries.len()).map(|c| RuleAst { idents: entries.iter().enumerate().map(|(i, e)| (format!("M{}", i), Ident::Map(vec![e.clone()]))).collect(), cond: c, tp: vec![], tn: vec![] });
    (qa, ea)
}

pub fn run(ctx: &Ctx) -> i32 {
    let rf = Ref::default();
    let fams = [Fam::Contains, Fam::IContains, Fam::Regex, Fam::IRegex, Fam::MixedStrings, Fam::Prefixes, Fam::Thresholds, Fam::Numbers, Fam::Nested, Fam::Exact, Fam::RegexWild];
    let maxk = ctx.size(4, 5);
    let mut work: Vec<(Fam, usize, bool)> = vec![];
    for f in fams {
        for k in 1..=maxk {
            for dup in [false, true] {
                work.push((f, k, dup));
            }
        }
    }
    // wide lists: the per-needle counting changes representation at 64 members
    for f in [Fam::Contains, Fam::IContains, Fam::Exact, Fam::Prefixes, Fam::Regex] {
        for k in [63usize, 64, 65, 70, 129] {
            work.push((f, k, false));
        }
    }
    let nw = work.len();
    let rshards = ctx.size(16, 64);
    let rep = par_shards(ctx, nw + rshards, |wi| {
        let mut rep = Report::new();
        if wi < nw {
            let (f, k, dup) = work[wi];
            if k > 8 {
                wide(&mut rep, &rf, f, k);
                return rep;
            }
            let ms = members(f, k, dup);
            let len = ms.len();
            let mut qs = vec![Q::Plain, Q::All];
            for n in 0..=(len as u64 + 1) {
                qs.push(Q::Of(n));
            }
            for q in &qs {
                // key-level quantifier
                let (qa, ea) = key_rules(q, &ms);
                for mask in 0u32..(1 << k) {
                    let Some(v) = value_for(f, k, mask) else { continue };
                    let doc = DVal::Obj(vec![("k".into(), v)]);
                    let ntrue = mask.count_ones() as usize + if dup && mask & 1 != 0 { 1 } else { 0 };
                    let n = match q {
                        Q::Of(n) => Some(*n),
                        Q::All => Some(len as u64),
                        Q::Plain => Some(1),
                    };
                    check_pair(&mut rep, &rf, &qa, ea.as_ref(), &doc, &format!("key {:?} {:?} k={} dup={}", q, f, k, dup), Some(ntrue), n);
                }
                check_pair(&mut rep, &rf, &qa, ea.as_ref(), &DVal::Obj(vec![("j".into(), DVal::s("x"))]), &format!("key {:?} {:?} absent", q, f), None, None);
                // array-valued field (string families): two elements, each making its own subset
                // of the members true. The reference brackets the two readings of a quantifier
                // over an array (Appendix A 8): true when one element alone reaches the
                // threshold, not true when even the union of the elements does not.
                if !dup && *q != Q::Plain && matches!(f, Fam::Contains | Fam::IContains | Fam::Regex | Fam::IRegex | Fam::MixedStrings | Fam::Prefixes | Fam::Exact) {
                    for m1 in 0u32..(1 << k) {
                        for m2 in m1..(1 << k) {
                            let (Some(v1), Some(v2)) = (value_for(f, k, m1), value_for(f, k, m2)) else { continue };
                            let best = m1.count_ones().max(m2.count_ones()) as usize;
                            let n = match q {
                                Q::Of(n) => *n,
                                _ => len as u64,
                            };
                            for arr in [vec![v1.clone(), v2.clone()], vec![DVal::UInt(7), v2.clone(), v1.clone()]] {
                                let doc = DVal::Obj(vec![("k".into(), DVal::Arr(arr))]);
                                check_pair_ref_only(&mut rep, &rf, &qa, &doc, &format!("key-array {:?} {:?} k={}", q, f, k), best, n);
                                rep.count("array_field_cells");
                            }
                        }
                    }
                }
                // nested-mapping members over an array of objects: each member is satisfied when
                // SOME element satisfies it (members may be satisfied by different elements), and a
                // scalar or null in the field satisfies none
                if !dup && *q != Q::Plain && f == Fam::Nested {
                    for m1 in 0u32..(1 << k) {
                        for m2 in m1..(1 << k) {
                            let (Some(v1), Some(v2)) = (value_for(f, k, m1), value_for(f, k, m2)) else { continue };
                            let ntrue = (m1 | m2).count_ones() as usize;
                            let n = match q {
                                Q::Of(n) => Some(*n),
                                _ => Some(len as u64),
                            };
                            for arr in [vec![v1.clone(), v2.clone()], vec![DVal::s("x"), v2.clone(), DVal::Obj(vec![]), v1.clone()]] {
                                let doc = DVal::Obj(vec![("k".into(), DVal::Arr(arr))]);
                                check_pair(&mut rep, &rf, &qa, ea.as_ref(), &doc, &format!("key nested-over-array {:?} k={}", q, k), Some(ntrue), n);
                                rep.count("nested_array_cells");
                            }
                        }
                    }
                    for v in [DVal::s("x"), DVal::Null, DVal::UInt(3), DVal::Arr(vec![]), DVal::Arr(vec![DVal::s("x")])] {
                        check_pair(&mut rep, &rf, &qa, ea.as_ref(), &DVal::Obj(vec![("k".into(), v)]), &format!("key nested-over-scalar {:?} k={}", q, k), Some(0), match q { Q::Of(n) => Some(*n), _ => Some(len as u64) });
                    }
                }
                // condition-level quantifier over an identifier with the same members as entries
                // on distinct fields k0..: entry i is `k{i}: member`
                if f != Fam::Nested {
                    let entries: Vec<(Key, RVal)> = ms.iter().enumerate().map(|(i, m)| (Key::plain(&format!("k{}", i)), m.clone())).collect();
                    for as_seq in [true, false] {
                        if entries.len() == 1 && !as_seq {
                            continue;
                        }
                        let (qa, ea) = ident_rules(q, &entries, as_seq);
                        for mask in 0u32..(1 << len) {
                            // entry i true <=> its own field holds a value satisfying member i alone
                            let mut fields = vec![];
                            let mut ok = true;
                            for i in 0..len {
                                let orig = if i < k { i } else { 0 };
                                let want = mask & (1 << i) != 0;
                                match value_for(f, k, if want { (1 << (orig + 1)) - 1 } else { 0 }) {
                                    Some(v) if matches!(f, Fam::Prefixes | Fam::Thresholds) => fields.push((format!("k{}", i), v)),
                                    _ => match value_for(f, k, if want { 1 << orig } else { 0 }) {
                                        Some(v) => fields.push((format!("k{}", i), v)),
                                        None => ok = false,
                                    },
                                }
                            }
                            if !ok {
                                continue;
                            }
                            let doc = DVal::Obj(fields);
                            let n = match q {
                                Q::Of(n) => Some(*n),
                                Q::All => Some(len as u64),
                                Q::Plain => Some(1),
                            };
                            check_pair(&mut rep, &rf, &qa, ea.as_ref(), &doc, &format!("ident({}) {:?} {:?} k={} dup={}", if as_seq { "seq" } else { "map" }, q, f, k, dup), Some(mask.count_ones() as usize), n);
                        }
                    }
                }
            }
            if rep.samples.is_empty() {
                let (qa, ea) = key_rules(&Q::Of(2.min(len as u64)), &ms);
                rep.sample(json!({"quantified": qa.to_text(), "written_out": ea.and_then(|e| e.to_text()), "member_truth_subsets": 1u32 << k}));
            }
        } else {
            // random member lists of every kind (mixed where the loader accepts them), entries
            // that are themselves lists, candidate documents derived from the members
            let mut rng = Rng::new(ctx.seed, "C08", wi as u64);
            let cfg = gen::GenCfg { nested: true, max_depth: 1, ..Default::default() };
            for _ in 0..ctx.size(600, 6000) {
                if ctx.expired() {
                    rep.truncated = true;
                    break;
                }
                let len = 1 + rng.below(5);
                let uniform = rng.chance(60);
                let first = gen::gen_entry(&mut rng, &cfg, 0);
                let mut ms: Vec<RVal> = vec![];
                while ms.len() < len {
                    let (_, v) = gen::gen_entry(&mut rng, &cfg, 0);
                    match v {
                        RVal::List(l) => ms.extend(l.into_iter().filter(|x| !matches!(x, RVal::Map(_)))),
                        RVal::Map(_) => {}
                        other => ms.push(other),
                    }
                }
                ms.truncate(len);
                let _ = first;
                if rng.chance(25) {
                    let d = ms[0].clone();
                    ms.push(d);
                }
                let q = match rng.below(4) {
                    0 => Q::Plain,
                    1 => Q::All,
                    _ => Q::Of(rng.below(ms.len() + 2) as u64),
                };
                let _ = uniform;
                let (qa, ea) = key_rules(&q, &ms);
                let leaves: Vec<gen::Leaf> = ms.iter().map(|m| gen::Leaf { containers: vec![], field: "k".into(), modi: KMod::None, val: m.clone(), pair_with: None }).collect();
                for _ in 0..6 {
                    let leaf = &leaves[rng.below(leaves.len())];
                    let v = gen::value_for(&mut rng, leaf);
                    // scalar fields only (quantifier of the property)
                    if matches!(v, DVal::Arr(_) | DVal::Obj(_)) {
                        continue;
                    }
                    let doc = DVal::Obj(vec![("k".into(), v)]);
                    check_pair(&mut rep, &rf, &qa, ea.as_ref(), &doc, &format!("random key {:?}", q), None, None);
                }
                rep.count("random_lists");
                // quantifier over an identifier whose entries are themselves lists
                let entries: Vec<(Key, RVal)> = (0..2 + rng.below(2)).map(|i| (Key::plain(&format!("k{}", i)), RVal::List(ms.iter().take(1 + rng.below(ms.len())).cloned().collect()))).collect();
                let q2 = match rng.below(3) {
                    0 => Q::All,
                    _ => Q::Of(rng.below(entries.len() + 2) as u64),
                };
                let (qa, ea) = ident_rules(&q2, &entries, rng.chance(50));
                for _ in 0..4 {
                    let mut fields = vec![];
                    for (i, _) in entries.iter().enumerate() {
                        let li = rng.below(leaves.len());
                        let v = gen::value_for(&mut rng, &leaves[li]);
                        if !matches!(v, DVal::Arr(_) | DVal::Obj(_)) && rng.chance(85) {
                            fields.push((format!("k{}", i), v));
                        }
                    }
                    check_pair(&mut rep, &rf, &qa, ea.as_ref(), &DVal::Obj(fields), &format!("random ident-of-lists {:?}", q2), None, None);
                }
            }
        }
        rep
    });
    let mut rep = rep;
    crate::regress::replay_witnesses(ctx, &mut rep);
    finish(
        ctx,
        rep,
        Meta {
            rule: format!("member families (contains, i-contains, regex, i-regex, regexes under the wildcard spellings the rewrite pass strips, mixed string kinds, nested prefixes, numeric thresholds, integers, nested mappings) x list length 1..{} (+ a duplicated member) x quantifier {{plain, all, of(n) for n in 0..len+1}} x every subset of members made true by a scalar field value (complete for each family) x {{key list, condition-level quantifier over a sequence identifier, over a mapping identifier}}; each quantified rule is compared with the same rule written out with explicit and/or/not over one-member identifiers (both run by the real engine) and with member counting in the reference interpreter (key lists also after optimisation with four switch sets); plus two- and three-element array fields whose elements make chosen member subsets true (string families), nested-mapping members over arrays of objects (a member holds when some element satisfies it) and over scalars, random mixed member lists and identifiers whose entries are lists. non-trivial = number of true members within 1 of the threshold; distinct by (form, family, length, threshold, true members)", maxk),
            exhaustive: true,
            assumptions: vec!["on an array-valued field only the bracket of the two readings is checked (true when one element alone reaches the threshold, not true when the union of all elements does not)".into(), "all(X)/of(X,n) over a one-entry mapping whose value is a list is left open (Appendix A)".into()],
            min_nontrivial: 300,
            extra: json!({}),
        },
    )
}
