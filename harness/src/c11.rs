//! C11 — the verdict is independent of how the document is represented.

use std::collections::HashMap;

use serde_json::json;
use tau_engine::Document;


use crate::dval::{json_ok, lookup, to_json, to_yaml_map, DVal};
use crate::eng;
use crate::gen::{self, GenCfg};
use crate::mon;
use crate::prng::Rng;
use crate::reps::{to_myobj, to_myval, to_rec, to_std, FlatDoc, StdVal};
use crate::run::{finish, par_shards, Ctx, Meta, Report};

/// std rendering where non-negative integers may also be delivered through signed types
fn std_doc(d: &DVal, variant: u64) -> HashMap<String, StdVal> {
    fn signed(v: &DVal, variant: u64) -> DVal {
        match v {
            DVal::UInt(u) if *u <= i64::MAX as u64 && variant % 3 == 0 => DVal::Int(*u as i64),
            DVal::Arr(a) => DVal::Arr(a.iter().enumerate().map(|(i, x)| signed(x, variant.wrapping_add(i as u64))).collect()),
            DVal::Obj(o) => DVal::Obj(o.iter().enumerate().map(|(i, (k, x))| (k.clone(), signed(x, variant.wrapping_add(i as u64 * 3 + 1)))).collect()),
            x => x.clone(),
        }
    }
    match to_std(&signed(d, variant), variant, true) {
        StdVal::Map(m) => m,
        _ => HashMap::new(),
    }
}

fn extreme_value(rng: &mut Rng) -> DVal {
    match rng.below(12) {
        0 => DVal::UInt(*rng.pick(&[0, 1, 127, 128, 255, 256, 32767, 32768, 65535, 65536, 2147483647, 2147483648, 4294967295, 4294967296, i64::MAX as u64, i64::MAX as u64 + 1, u64::MAX])),
        1 => DVal::Int(*rng.pick(&[-1, -128, -129, -32768, -32769, -2147483648, -2147483649, i64::MIN])),
        2 => DVal::Float(*rng.pick(&[0.5, 0.1, 1.0, -2.5, 16777217.0, 3.4028234663852886e38, 1e39, f64::NAN, f64::INFINITY, -0.0])),
        3 => DVal::Null,
        4 => DVal::Bool(rng.chance(50)),
        5 => DVal::Arr(vec![]),
        6 => DVal::Arr(vec![DVal::UInt(*rng.pick(&[5, u64::MAX]))]),
        7 => DVal::Arr(vec![DVal::s("foo")]),
        8 => DVal::Arr(vec![DVal::Obj(vec![("a".into(), DVal::s("foo"))]), DVal::Obj(vec![("a".into(), DVal::UInt(5))])]),
        9 => DVal::Obj(vec![("a".into(), DVal::Int(-5)), ("b".into(), DVal::Arr(vec![DVal::Int(-1)]))]),
        _ => DVal::Str(gen::word(rng)),
    }
}

pub fn run(ctx: &Ctx) -> i32 {
    let shards = ctx.size(64, 512);
    let per = ctx.size(300, 2500);
    let rep = par_shards(ctx, shards, |shard| {
        let mut rep = Report::new();
        let mut rng = Rng::new(ctx.seed, "C11", shard as u64);
        let cfg = GenCfg::default();
        for n in 0..per {
            if ctx.expired() {
                rep.truncated = true;
                break;
            }
            let ast = gen::gen_rule(&mut rng, &cfg);
            let Some(text) = ast.to_text() else { continue };
            let Some(rule) = eng::load_ok(&text) else {
                rep.count("rule_rejected");
                continue;
            };
            let opt = eng::optimise(&rule, eng::Sw(15)).ok();
            let leaves = gen::collect_leaves(&ast);
            let (top, _) = crate::c16::rule_keys(&ast);
            for dn in 0..ctx.size(6, 10) {
                let mut doc = gen::gen_doc(&mut rng, &leaves);
                if dn % 2 == 1 {
                    // numeric extremes and container edge cases on addressed fields
                    for l in leaves.iter().take(3) {
                        if l.containers.is_empty() && !l.field.contains('.') && !l.field.contains('[') && rng.chance(60) {
                            doc.set(&l.field, extreme_value(&mut rng));
                        }
                    }
                }
                let variant = rng.next();
                let ymap = to_yaml_map(&doc);
                let smap = std_doc(&doc, variant);
                let mobj = to_myobj(&doc);
                let rec = to_rec(&doc, None, false);
                let flat = FlatDoc { table: top.iter().filter_map(|k| lookup(&doc, k).map(|v| (k.clone(), to_myval(v)))).collect(), log: None };
                let jv = if json_ok(&doc) { Some(to_json(&doc)) } else { None };
                let jm = jv.as_ref().and_then(|v| v.as_object().cloned());
                let well_formed = top.iter().all(|k| crate::dval::parse_path(k).is_some());
                for (rname, r) in [("unoptimised", Some(&rule)), ("optimised", opt.as_ref())] {
                    let Some(r) = r else { continue };
                    let mut results: Vec<(&str, Result<u8, eng::Panic>)> = vec![
                        ("yaml-mapping", eng::solve3(r, &ymap)),
                        ("std-hashmap", eng::solve3(r, &smap)),
                        ("custom-object(default find)", eng::solve3(r, &mobj)),
                    ];
                    if well_formed {
                        results.push(("custom-object(own find)", eng::solve3(r, &rec)));
                        // a bare Document answering the rule's top-level keys literally: only
                        // comparable when no nested block looks inside (values are plain objects)
                        results.push(("flat-document", eng::solve3(r, &flat as &dyn Document)));
                    }
                    if let Some(j) = &jv {
                        results.push(("json-value", eng::solve3(r, j)));
                    }
                    if let Some(j) = &jm {
                        results.push(("json-map", eng::solve3(r, j)));
                    }
                    rep.evaluations += results.len() as u64;
                    let base = match &results[0].1 {
                        Ok(b) => *b,
                        Err(p) => {
                            rep.violation("panic", &format!("panic:{}", p.sig()), &format!("matches panicked: {}", p.sig()), mon::case(&text, &doc, None, json!("no-panic"), json!(p.sig()), json!({})));
                            continue;
                        }
                    };
                    let has_num_or_container = gen::doc_kinds(&doc);
                    rep.nontrivial_key(&format!("{}|{}", has_num_or_container, base));
                    for (name, r2) in results.iter().skip(1) {
                        match r2 {
                            Ok(v) if *v == base => {}
                            Ok(v) => {
                                rep.violation(
                                    "representation",
                                    &format!("c11:{}:{}", name, rname),
                                    &format!("{} rule: yaml-mapping gives {} but {} gives {} for the same data {}", rname, base, name, v, doc.to_json_text()),
                                    mon::case(&text, &doc, None, json!(base), json!(v), json!({"representation": name, "std_variant": variant, "form": rname})),
                                );
                            }
                            Err(p) => rep.violation("panic", &format!("panic:{}", p.sig()), &format!("matches on {} panicked: {}", name, p.sig()), mon::case(&text, &doc, None, json!("no-panic"), json!(p.sig()), json!({"representation": name}))),
                        }
                    }
                }
            }
            if n == 0 && shard < 3 {
                rep.sample(json!({"rule": text, "representations": ["yaml-mapping", "std-hashmap", "custom-object(default find)", "custom-object(own find)", "flat-document", "json-value", "json-map"]}));
            }
        }
        // direct adaptor checks: every std type delivers the value kind with the same numeric
        // value and signedness
        {
            use crate::reps::from_value;
            use tau_engine::AsValue;
            let probes: Vec<(StdVal, DVal)> = vec![
                (StdVal::I8(-128), DVal::Int(-128)),
                (StdVal::I16(-32768), DVal::Int(-32768)),
                (StdVal::I32(i32::MIN), DVal::Int(i32::MIN as i64)),
                (StdVal::I64(i64::MIN), DVal::Int(i64::MIN)),
                (StdVal::Isize(-5), DVal::Int(-5)),
                (StdVal::I8(127), DVal::Int(127)),
                (StdVal::U8(255), DVal::UInt(255)),
                (StdVal::U16(65535), DVal::UInt(65535)),
                (StdVal::U32(u32::MAX), DVal::UInt(u32::MAX as u64)),
                (StdVal::U64(u64::MAX), DVal::UInt(u64::MAX)),
                (StdVal::Usize(usize::MAX), DVal::UInt(usize::MAX as u64)),
                (StdVal::F32(0.5), DVal::Float(0.5)),
                (StdVal::F32(0.1), DVal::Float(0.1f32 as f64)),
                (StdVal::F64(0.1), DVal::Float(0.1)),
                (StdVal::Bool(true), DVal::Bool(true)),
                (StdVal::Str("x".into()), DVal::s("x")),
                (StdVal::Unit, DVal::Null),
                (StdVal::NoneI64(None), DVal::Null),
                (StdVal::SomeI64(Some(-7)), DVal::Int(-7)),
                (StdVal::SomeU64(Some(u64::MAX)), DVal::UInt(u64::MAX)),
                (StdVal::SomeStr(Some("s".into())), DVal::s("s")),
                (StdVal::Vec(vec![StdVal::I8(-1), StdVal::U8(1)]), DVal::Arr(vec![DVal::Int(-1), DVal::UInt(1)])),
                (StdVal::SetI64([-9i64].into_iter().collect()), DVal::Arr(vec![DVal::Int(-9)])),
                (StdVal::SetU64([u64::MAX].into_iter().collect()), DVal::Arr(vec![DVal::UInt(u64::MAX)])),
                (StdVal::SetStr(["a".to_string()].into_iter().collect()), DVal::Arr(vec![DVal::s("a")])),
            ];
            if shard == 0 {
                for (sv, want) in probes {
                    rep.evaluations += 1;
                    let got = from_value(&sv.as_value());
                    // exact kind: Int stays Int, UInt stays UInt
                    if got != want {
                        rep.violation("adaptor", &format!("c11-adaptor:{:?}", want.kind()), &format!("std value {:?} is delivered as {:?} , expected {:?}", sv, got, want), json!({"std": format!("{:?}", sv)}));
                    }
                }
                // serde adaptors on 64-bit extremes
                for (y, want) in [("18446744073709551615", DVal::UInt(u64::MAX)), ("9223372036854775808", DVal::UInt(i64::MAX as u64 + 1)), ("-9223372036854775808", DVal::Int(i64::MIN)), ("-1", DVal::Int(-1)), ("1.5", DVal::Float(1.5)), ("7", DVal::UInt(7))] {
                    let yv: serde_yaml::Value = serde_yaml::from_str(y).unwrap();
                    let jv: serde_json::Value = serde_json::from_str(y).unwrap();
                    for (name, got) in [("yaml", from_value(&yv.as_value())), ("json", from_value(&jv.as_value()))] {
                        rep.evaluations += 1;
                        if got != want {
                            rep.violation("adaptor", &format!("c11-adaptor-serde:{}", name), &format!("{} number {} is delivered as {:?} , expected {:?}", name, y, got, want), json!({"text": y}));
                        }
                    }
                }
            }
        }
        rep
    });
    let mut rep = rep;
    crate::regress::replay_witnesses(ctx, &mut rep);
    finish(
        ctx,
        rep,
        Meta {
            rule: "generated rules (unoptimised and fully optimised) x rule-aware documents, half of them with 64-bit / width-boundary numbers, NaN, null, empty and nested containers on addressed fields; each document is rendered into up to seven representations (serde_yaml mapping, serde_json value and map, HashMap<String, _> over the crate's std adaptors with the narrowest integer width / f32 when exact / Option / Vec / HashSet and signed types for non-negative values, a hand-written Object with the default find, one with its own find, a bare Document answering the rule's keys literally) and the hooked three-valued result must be identical; plus direct probes of every std and serde adaptor for kind, value and signedness. non-trivial = distinct (document value-kind set, result)".into(),
            exhaustive: false,
            assumptions: vec!["JSON is skipped for non-finite floats, HashSet is used only for arrays of <= 1 element".into(), "f32 is used only when the value is exactly representable".into()],
            min_nontrivial: 50,
            extra: json!({}),
        },
    )
}
