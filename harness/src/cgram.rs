//! The harness's own reading of the condition grammar (independent of the engine's tokeniser and
//! Pratt parser): tokens, then precedence climbing with not > comparison > or > and,
//! left-associative, parentheses override.

use crate::ast::*;

#[derive(Clone, Debug, PartialEq)]
pub enum Tok {
    And,
    Or,
    Not,
    LPar,
    RPar,
    Comma,
    Cmp(CmpOp),
    Int(i64),
    Flt(f64),
    Name(String),
    /// keyword immediately followed by '(' : all( of( int( flt( str( not(
    Fun(&'static str),
}

fn is_name_char(c: char) -> bool {
    c.is_alphanumeric() || c == '_' || c == '.' || c == '#' || c == '[' || c == ']'
}

pub fn tokens(s: &str) -> Result<Vec<Tok>, String> {
    let cs: Vec<char> = s.chars().collect();
    let mut i = 0;
    let mut out = vec![];
    let starts = |i: usize, w: &str| -> bool {
        let wc: Vec<char> = w.chars().collect();
        i + wc.len() <= cs.len() && cs[i..i + wc.len()] == wc[..]
    };
    while i < cs.len() {
        let c = cs[i];
        if c == ' ' || ('\u{9}'..='\u{d}').contains(&c) {
            i += 1;
        } else if c.is_ascii_digit() || c == '.' {
            let st = i;
            while i < cs.len() && (cs[i].is_ascii_digit() || cs[i] == '.') {
                i += 1;
            }
            let t: String = cs[st..i].iter().collect();
            if t.contains('.') {
                out.push(Tok::Flt(t.parse().map_err(|_| "bad float")?));
            } else {
                out.push(Tok::Int(t.parse().map_err(|_| "bad int")?));
            }
        } else if c.is_ascii_alphabetic() || c == '#' {
            let funs: [(&str, &'static str); 7] = [("flt(", "flt"), ("int(", "int"), ("string(", "str"), ("str(", "str"), ("not(", "notk"), ("all(", "all"), ("of(", "of")];
            if let Some((w, f)) = funs.iter().find(|(w, _)| starts(i, w)) {
                out.push(Tok::Fun(f));
                i += w.len() - 1; // the '(' is a token of its own
            } else if starts(i, "and ") {
                out.push(Tok::And);
                i += 3;
            } else if starts(i, "or ") {
                out.push(Tok::Or);
                i += 2;
            } else if starts(i, "not ") {
                out.push(Tok::Not);
                i += 3;
            } else {
                let st = i;
                while i < cs.len() && is_name_char(cs[i]) {
                    i += 1;
                }
                out.push(Tok::Name(cs[st..i].iter().collect()));
            }
        } else if c == '=' {
            if i + 1 < cs.len() && cs[i + 1] == '=' {
                out.push(Tok::Cmp(CmpOp::Eq));
                i += 2;
            } else {
                return Err("single =".into());
            }
        } else if c == '<' || c == '>' {
            let eq = i + 1 < cs.len() && cs[i + 1] == '=';
            out.push(Tok::Cmp(match (c, eq) {
                ('<', true) => CmpOp::Le,
                ('<', false) => CmpOp::Lt,
                ('>', true) => CmpOp::Ge,
                _ => CmpOp::Gt,
            }));
            i += if eq { 2 } else { 1 };
        } else if c == '(' {
            out.push(Tok::LPar);
            i += 1;
        } else if c == ')' {
            out.push(Tok::RPar);
            i += 1;
        } else if c == ',' {
            out.push(Tok::Comma);
            i += 1;
        } else {
            return Err(format!("unsupported character {:?}", c));
        }
    }
    Ok(out)
}

struct P {
    t: Vec<Tok>,
    i: usize,
    /// alternative grammars, used only to decide whether a condition is a non-trivial witness
    /// (its tree depends on the precedence table): swap and/or, let `not` take everything
    swap_and_or: bool,
    loose_not: bool,
    /// treat a missing ')' at the very end as present (the engine does; the properties say
    /// nothing about unbalanced parentheses)
    lenient_parens: bool,
}

/// intermediate: either a predicate or a bare operand of a comparison
enum Node {
    Pred(Cond),
    Opnd(Opnd),
}

impl P {
    fn peek(&self) -> Option<&Tok> {
        self.t.get(self.i)
    }
    fn next(&mut self) -> Option<Tok> {
        let t = self.t.get(self.i).cloned();
        self.i += 1;
        t
    }
    fn expect(&mut self, t: Tok) -> Result<(), String> {
        if self.next() == Some(t.clone()) {
            Ok(())
        } else {
            Err(format!("expected {:?}", t))
        }
    }
    // and-level (lowest)
    fn and_level(&mut self) -> Result<Node, String> {
        let low = if self.swap_and_or { Tok::Or } else { Tok::And };
        let mut l = self.or_level()?;
        while self.peek() == Some(&low) {
            self.next();
            let r = self.or_level()?;
            l = Node::Pred(if self.swap_and_or { Cond::or(pred(l)?, pred(r)?) } else { Cond::and(pred(l)?, pred(r)?) });
        }
        Ok(l)
    }
    fn or_level(&mut self) -> Result<Node, String> {
        let high = if self.swap_and_or { Tok::And } else { Tok::Or };
        let mut l = self.cmp_level()?;
        while self.peek() == Some(&high) {
            self.next();
            let r = self.cmp_level()?;
            l = Node::Pred(if self.swap_and_or { Cond::and(pred(l)?, pred(r)?) } else { Cond::or(pred(l)?, pred(r)?) });
        }
        Ok(l)
    }
    fn cmp_level(&mut self) -> Result<Node, String> {
        let mut l = self.unary()?;
        while let Some(Tok::Cmp(op)) = self.peek().cloned() {
            self.next();
            let r = self.unary()?;
            match (l, r) {
                (Node::Opnd(a), Node::Opnd(b)) => l = Node::Pred(Cond::Cmp(a, op, b)),
                _ => return Err("comparison of non-operands".into()),
            }
        }
        Ok(l)
    }
    fn unary(&mut self) -> Result<Node, String> {
        match self.next() {
            Some(Tok::Not) => {
                // `not` applies to the single operand that follows it
                let x = if self.loose_not { self.and_level()? } else { self.unary()? };
                Ok(Node::Pred(Cond::not(pred(x)?)))
            }
            Some(Tok::LPar) => {
                let x = self.and_level()?;
                if !(self.lenient_parens && self.i >= self.t.len()) {
                    self.expect(Tok::RPar)?;
                }
                match x {
                    Node::Pred(c) => Ok(Node::Pred(Cond::Paren(Box::new(c)))),
                    o => Ok(o),
                }
            }
            Some(Tok::Name(n)) => Ok(Node::Pred(Cond::Id(n))),
            Some(Tok::Int(i)) => Ok(Node::Opnd(Opnd::Int(i))),
            Some(Tok::Flt(f)) => Ok(Node::Opnd(Opnd::Flt(f))),
            Some(Tok::Fun(f)) => {
                self.expect(Tok::LPar)?;
                let name = match self.next() {
                    Some(Tok::Name(n)) => n,
                    _ => return Err("expected a name".into()),
                };
                let node = match f {
                    "all" => Node::Pred(Cond::All(name)),
                    "of" => {
                        self.expect(Tok::Comma)?;
                        match self.next() {
                            Some(Tok::Int(n)) if n >= 0 => Node::Pred(Cond::Of(name, n as u64)),
                            _ => return Err("expected a count".into()),
                        }
                    }
                    "int" => Node::Opnd(Opnd::Cast(CastK::Int, name)),
                    "flt" => Node::Opnd(Opnd::Cast(CastK::Flt, name)),
                    "str" => Node::Opnd(Opnd::Cast(CastK::Str, name)),
                    _ => return Err("not( is a key modifier".into()),
                };
                self.expect(Tok::RPar)?;
                Ok(node)
            }
            other => Err(format!("unexpected {:?}", other)),
        }
    }
}

fn pred(n: Node) -> Result<Cond, String> {
    match n {
        Node::Pred(c) => Ok(c),
        Node::Opnd(_) => Err("operand where a predicate is required".into()),
    }
}

/// Parse a condition by the fixed grammar. Parentheses are kept as `Cond::Paren`.
pub fn parse(s: &str) -> Result<Cond, String> {
    parse_with(s, false, false)
}

/// like `parse`, but a missing ')' at the end of the condition is tolerated
pub fn parse_lenient(s: &str) -> Result<Cond, String> {
    let t = tokens(s)?;
    let mut p = P { t, i: 0, swap_and_or: false, loose_not: false, lenient_parens: true };
    let n = p.and_level()?;
    if p.i != p.t.len() {
        return Err("trailing tokens".into());
    }
    pred(n)
}

pub fn parse_with(s: &str, swap_and_or: bool, loose_not: bool) -> Result<Cond, String> {
    let t = tokens(s)?;
    let mut p = P { t, i: 0, swap_and_or, loose_not, lenient_parens: false };
    let n = p.and_level()?;
    if p.i != p.t.len() {
        return Err("trailing tokens".into());
    }
    pred(n)
}

/// drop parentheses (they only steer parsing)
pub fn strip_parens(c: &Cond) -> Cond {
    match c {
        Cond::Paren(a) => strip_parens(a),
        Cond::And(a, b) => Cond::and(strip_parens(a), strip_parens(b)),
        Cond::Or(a, b) => Cond::or(strip_parens(a), strip_parens(b)),
        Cond::Not(a) => Cond::not(strip_parens(a)),
        x => x.clone(),
    }
}

/// The engine's parsed tree, converted to the same shape (feature `core` exposes `Expression`).
pub fn from_engine(e: &tau_engine::core::parser::Expression) -> Option<Cond> {
    use tau_engine::core::parser::{BoolSym, Expression as E, Match, ModSym};
    let opnd = |e: &E| -> Option<Opnd> {
        match e {
            E::Integer(i) => Some(Opnd::Int(*i)),
            E::Float(f) => Some(Opnd::Flt(*f)),
            E::Cast(f, ModSym::Int) => Some(Opnd::Cast(CastK::Int, f.clone())),
            E::Cast(f, ModSym::Flt) => Some(Opnd::Cast(CastK::Flt, f.clone())),
            E::Cast(f, ModSym::Str) => Some(Opnd::Cast(CastK::Str, f.clone())),
            _ => None,
        }
    };
    match e {
        E::Identifier(n) => Some(Cond::Id(n.clone())),
        E::Negate(a) => Some(Cond::not(from_engine(a)?)),
        E::Match(Match::All, a) => match &**a {
            E::Identifier(n) => Some(Cond::All(n.clone())),
            _ => None,
        },
        E::Match(Match::Of(n), a) => match &**a {
            E::Identifier(x) => Some(Cond::Of(x.clone(), *n)),
            _ => None,
        },
        E::BooleanExpression(l, op, r) => match op {
            BoolSym::And => Some(Cond::and(from_engine(l)?, from_engine(r)?)),
            BoolSym::Or => Some(Cond::or(from_engine(l)?, from_engine(r)?)),
            BoolSym::Equal => Some(Cond::Cmp(opnd(l)?, CmpOp::Eq, opnd(r)?)),
            BoolSym::GreaterThan => Some(Cond::Cmp(opnd(l)?, CmpOp::Gt, opnd(r)?)),
            BoolSym::GreaterThanOrEqual => Some(Cond::Cmp(opnd(l)?, CmpOp::Ge, opnd(r)?)),
            BoolSym::LessThan => Some(Cond::Cmp(opnd(l)?, CmpOp::Lt, opnd(r)?)),
            BoolSym::LessThanOrEqual => Some(Cond::Cmp(opnd(l)?, CmpOp::Le, opnd(r)?)),
        },
        _ => None,
    }
}
