//! C02 — verdicts follow the documented rule language (reference-model monitor).

use serde_json::json;

use crate::ast::RuleAst;
use crate::dval::{to_yaml_map, DVal};
use crate::eng::{self, Load};
use crate::gen::{self, GenCfg};
use crate::mon;
use crate::prng::Rng;
use crate::refi::{self, Ref};
use crate::run::{finish, par_shards, Ctx, Meta, Report};
use crate::shrink::shrink;

/// engine verdict + three-valued result of `rule` on `doc` (None on load failure / panic)
pub fn observe(ast: &RuleAst, doc: &DVal) -> Option<(bool, u8)> {
    let text = ast.to_text()?;
    let rule = eng::load_ok(&text)?;
    let m = to_yaml_map(doc);
    let v = eng::matches(&rule, &m).ok()?;
    let t = eng::solve3(&rule, &m).ok()?;
    Some((v, t))
}

pub fn check_case(rep: &mut Report, rf: &Ref, ast: &RuleAst, text: &str, rule: &tau_engine::Rule, doc: &DVal, tagk: &str) {
    let m = to_yaml_map(doc);
    let exp = rf.eval_rule(ast, doc);
    let got = match eng::matches(rule, &m) {
        Ok(v) => v,
        Err(p) => {
            rep.violation(
                "panic",
                &format!("panic:{}", p.sig()),
                &format!("matches() panicked at {}", p.sig()),
                mon::case(text, doc, None, json!("no-panic"), json!(p.sig()), json!({})),
            );
            return;
        }
    };
    let got3 = eng::solve3(rule, &m).unwrap_or(9);
    rep.evaluations += 1;
    rep.count(&format!("engine.{}", ["false", "true", "missing"].get(got3 as usize).unwrap_or(&"?")));
    let dec = refi::verdict(exp);
    match dec {
        None => {
            rep.count("undecided_by_reference");
            if std::env::var("TMON_UNDECIDED").is_ok() && rep.get("undecided_by_reference") % 97 == 0 {
                eprintln!("UNDECIDED {} :: {} :: {}", refi::ts_name(exp), text.replace('\n', " | "), doc.to_json_text());
            }
        }
        Some(want) => {
            rep.count("decisive");
            rep.nontrivial_key(&format!("{}|{}|{}", tagk, gen::doc_kinds(doc), want));
            if want != got {
                // shrink while the same kind of disagreement persists
                let rf2 = rf.clone();
                let (sr, sd) = shrink(ast, doc, 300, &mut |r, d| {
                    let e = refi::verdict(rf2.eval_rule(r, d));
                    match (e, observe(r, d)) {
                        (Some(w), Some((g, _))) => w != g,
                        _ => false,
                    }
                });
                let st = sr.to_text().unwrap_or_else(|| text.to_string());
                let sexp = rf.eval_rule(&sr, &sd);
                let sgot = observe(&sr, &sd);
                rep.violation(
                    "verdict-differs",
                    &format!("c02:{}:{}", gen::tag_key(&gen::tags(&sr)), want),
                    &format!(
                        "reference says {} engine says {} (shrunk rule tags: {})",
                        refi::ts_name(sexp),
                        sgot.map(|g| g.0.to_string()).unwrap_or("?".into()),
                        gen::tag_key(&gen::tags(&sr))
                    ),
                    mon::case(&st, &sd, None, json!(refi::verdict(sexp)), json!(sgot.map(|g| g.0)), json!({"original_rule": text, "original_doc": doc.to_json_text(), "reference_set": refi::ts_name(sexp)})),
                );
                return;
            }
        }
    }
    // three-valued observation (hook H2) against the set the texts allow
    if got3 <= 2 && refi::from_code(got3) & exp == 0 && dec.map(|w| w == got).unwrap_or(true) {
        rep.count("three_valued_outside_reference_set");
        let rf2 = rf.clone();
        let (sr, sd) = shrink(ast, doc, 200, &mut |r, d| match observe(r, d) {
            Some((_, t)) => refi::from_code(t) & rf2.eval_rule(r, d) == 0,
            None => false,
        });
        let st = sr.to_text().unwrap_or_else(|| text.to_string());
        rep.violation(
            "three-valued-differs",
            &format!("c02-3v:{}", gen::tag_key(&gen::tags(&sr))),
            &format!("engine three-valued result {} outside reference set {}", got3, refi::ts_name(rf.eval_rule(&sr, &sd))),
            mon::case(&st, &sd, None, json!(null), json!(observe(&sr, &sd).map(|g| g.1)), json!({"reference_set": refi::ts_name(rf.eval_rule(&sr, &sd))})),
        );
    }
}

pub fn run(ctx: &Ctx) -> i32 {
    let shards = ctx.size(64, 1024);
    let rules_per_shard = ctx.size(900, 3000);
    let docs_per_rule = ctx.size(10, 16);
    let rf = Ref::default();
    let rep = par_shards(ctx, shards, |shard| {
        let mut rep = Report::new();
        let mut rng = Rng::new(ctx.seed, "C02", shard as u64);
        let cfg = GenCfg::default();
        for _ in 0..rules_per_shard {
            if ctx.expired() {
                rep.truncated = true;
                break;
            }
            let ast = gen::gen_rule(&mut rng, &cfg);
            let Some(text) = ast.to_text() else {
                rep.count("emitter_self_check_failed");
                continue;
            };
            let rule = match eng::load(&text) {
                Ok(Load::Ok(r)) => *r,
                Ok(Load::Err(_)) => {
                    rep.count("load_rejected");
                    continue;
                }
                Err(p) => {
                    rep.count("load_panicked");
                    rep.violation("panic", &format!("panic:{}", p.sig()), &format!("load panicked at {}", p.sig()), json!({"rule": text}));
                    continue;
                }
            };
            rep.count("rules_loaded");
            let tagk = gen::tag_key(&gen::tags(&ast));
            let leaves = gen::collect_leaves(&ast);
            for d in 0..docs_per_rule {
                let doc = gen::gen_doc(&mut rng, &leaves);
                check_case(&mut rep, &rf, &ast, &text, &rule, &doc, &tagk);
                if d == 0 && rep.samples.len() < 3 {
                    rep.sample(json!({"rule": text, "doc": doc.to_json_text(), "reference": refi::ts_name(rf.eval_rule(&ast, &doc))}));
                }
            }
        }
        rep
    });
    let mut rep = rep;
    // the repository's own rule files, read by the harness's own YAML-to-AST reader: their examples
    // and generated documents against the reference
    {
        let mut rng = Rng::new(ctx.seed, "C02-corpus", 0);
        for cr in crate::corpus::load() {
            let Some(ast) = &cr.ast else {
                rep.count("corpus.not_covered_by_harness_reader");
                continue;
            };
            let Some(rule) = eng::load_ok(&cr.text) else {
                rep.count("corpus.rejected_by_engine");
                continue;
            };
            rep.count("corpus.rules");
            let tagk = format!("corpus:{}", cr.name);
            let leaves = gen::collect_leaves(ast);
            let mut docs: Vec<DVal> = ast.tp.iter().chain(ast.tn.iter()).cloned().collect();
            for _ in 0..ctx.size(200, 5000) {
                docs.push(gen::gen_doc(&mut rng, &leaves));
            }
            // mutated examples: drop / alter one field
            for ex in ast.tp.iter().chain(ast.tn.iter()) {
                if let DVal::Obj(es) = ex {
                    for i in 0..es.len() {
                        let mut d = es.clone();
                        d.remove(i);
                        docs.push(DVal::Obj(d));
                        let mut d = es.clone();
                        d[i].1 = gen::junk_scalar(&mut rng);
                        docs.push(DVal::Obj(d));
                    }
                }
            }
            for d in &docs {
                check_case(&mut rep, &rf, ast, &cr.text, &rule, d, &tagk);
            }
            // the rule's own examples are an oracle of their own
            for (want, list) in [(true, &ast.tp), (false, &ast.tn)] {
                for ex in list {
                    if let Some(w) = refi::verdict(rf.eval_rule(ast, ex)) {
                        if w != want {
                            rep.notes.push(format!("reference disagrees with the corpus example of {} (reference {}, file says {})", cr.name, w, want));
                        }
                    }
                }
            }
        }
    }
    crate::regress::replay_witnesses(ctx, &mut rep);
    let loaded = rep.get("rules_loaded");
    let rejected = rep.get("load_rejected");
    if loaded * 2 < rejected {
        rep.inconclusive.push(format!("only {} of {} generated rules loaded", loaded, loaded + rejected));
    }
    finish(
        ctx,
        rep,
        Meta {
            rule: "grammar-directed random rules (1-4 identifiers, mappings/sequences, lists, nested mappings, every key modifier, every pattern kind, condition with and/or/not/all/of/cast comparisons) x rule-aware documents; the unoptimised engine verdict (and hook H2's three-valued result) is compared with a set-valued reference interpreter working from the author's AST. non-trivial = case the reference decides; distinct by (rule feature-tag set, document value-kind set, verdict)".into(),
            exhaustive: false,
            assumptions: vec![
                "regex crate trusted for ?re patterns".into(),
                "serde_yaml trusted to parse the harness emitter's output (self-checked by re-parsing)".into(),
                "Rust Display of numbers is the canonical decimal text for str()".into(),
                "cells the documentation leaves open are sets (DESIGN Appendix A) and cannot produce violations".into(),
            ],
            min_nontrivial: 50,
            extra: json!({}),
        },
    )
}
