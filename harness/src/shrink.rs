//! Greedy shrinker for (rule, document) witnesses: delete identifiers / entries / list members /
//! condition operands / document fields while the failure persists.

use crate::ast::*;
use crate::dval::DVal;

fn cond_children(c: &Cond) -> Vec<Cond> {
    match c {
        Cond::And(a, b) | Cond::Or(a, b) => vec![(**a).clone(), (**b).clone()],
        Cond::Not(a) | Cond::Paren(a) => vec![(**a).clone()],
        _ => vec![],
    }
}

/// all conditions obtained by replacing one sub-tree with one of its children
fn cond_variants(c: &Cond) -> Vec<Cond> {
    let mut out = cond_children(c);
    match c {
        Cond::And(a, b) => {
            for v in cond_variants(a) {
                out.push(Cond::And(Box::new(v), b.clone()));
            }
            for v in cond_variants(b) {
                out.push(Cond::And(a.clone(), Box::new(v)));
            }
        }
        Cond::Or(a, b) => {
            for v in cond_variants(a) {
                out.push(Cond::Or(Box::new(v), b.clone()));
            }
            for v in cond_variants(b) {
                out.push(Cond::Or(a.clone(), Box::new(v)));
            }
        }
        Cond::Not(a) => {
            for v in cond_variants(a) {
                out.push(Cond::Not(Box::new(v)));
            }
        }
        Cond::Paren(a) => {
            for v in cond_variants(a) {
                out.push(Cond::Paren(Box::new(v)));
            }
        }
        _ => {}
    }
    out
}

fn entries_variants(es: &Entries) -> Vec<Entries> {
    let mut out = vec![];
    if es.len() > 1 {
        for i in 0..es.len() {
            let mut e = es.clone();
            e.remove(i);
            out.push(e);
        }
    }
    for (i, (k, v)) in es.iter().enumerate() {
        match v {
            RVal::List(ms) if ms.len() > 1 => {
                for j in 0..ms.len() {
                    let mut m = ms.clone();
                    m.remove(j);
                    let mut e = es.clone();
                    e[i] = (k.clone(), RVal::List(m));
                    out.push(e);
                }
            }
            RVal::List(ms) if ms.len() == 1 && !matches!(k.modi, KMod::All | KMod::Of(_)) => {
                let mut e = es.clone();
                e[i] = (k.clone(), ms[0].clone());
                out.push(e);
            }
            RVal::Map(inner) => {
                for iv in entries_variants(inner) {
                    let mut e = es.clone();
                    e[i] = (k.clone(), RVal::Map(iv));
                    out.push(e);
                }
            }
            _ => {}
        }
        if let RVal::List(ms) = v {
            for (j, m) in ms.iter().enumerate() {
                if let RVal::Map(inner) = m {
                    for iv in entries_variants(inner) {
                        let mut mm = ms.clone();
                        mm[j] = RVal::Map(iv);
                        let mut e = es.clone();
                        e[i] = (k.clone(), RVal::List(mm));
                        out.push(e);
                    }
                }
            }
        }
    }
    out
}

fn rule_variants(r: &RuleAst) -> Vec<RuleAst> {
    let mut out = vec![];
    for c in cond_variants(&r.cond) {
        let mut n = r.clone();
        n.cond = c;
        out.push(n);
    }
    // drop identifiers the condition does not mention
    let mut used = vec![];
    r.cond.idents(&mut used);
    if r.idents.iter().any(|(n, _)| !used.contains(n)) {
        let mut n = r.clone();
        n.idents.retain(|(n, _)| used.contains(n));
        out.push(n);
    }
    for (i, (name, id)) in r.idents.iter().enumerate() {
        match id {
            Ident::Map(es) => {
                for v in entries_variants(es) {
                    let mut n = r.clone();
                    n.idents[i] = (name.clone(), Ident::Map(v));
                    out.push(n);
                }
            }
            Ident::Seq(s) => {
                if s.len() > 1 {
                    for j in 0..s.len() {
                        let mut ns = s.clone();
                        ns.remove(j);
                        let mut n = r.clone();
                        n.idents[i] = (name.clone(), Ident::Seq(ns));
                        out.push(n);
                    }
                }
                for (j, es) in s.iter().enumerate() {
                    for v in entries_variants(es) {
                        let mut ns = s.clone();
                        ns[j] = v;
                        let mut n = r.clone();
                        n.idents[i] = (name.clone(), Ident::Seq(ns));
                        out.push(n);
                    }
                }
            }
        }
    }
    out
}

fn doc_variants(d: &DVal) -> Vec<DVal> {
    let mut out = vec![];
    match d {
        DVal::Obj(es) => {
            for i in 0..es.len() {
                let mut e = es.clone();
                e.remove(i);
                out.push(DVal::Obj(e));
            }
            for (i, (k, v)) in es.iter().enumerate() {
                for nv in doc_variants(v) {
                    let mut e = es.clone();
                    e[i] = (k.clone(), nv);
                    out.push(DVal::Obj(e));
                }
            }
        }
        DVal::Arr(a) => {
            for i in 0..a.len() {
                let mut e = a.clone();
                e.remove(i);
                out.push(DVal::Arr(e));
            }
            for (i, v) in a.iter().enumerate() {
                for nv in doc_variants(v) {
                    let mut e = a.clone();
                    e[i] = nv;
                    out.push(DVal::Arr(e));
                }
            }
        }
        _ => {}
    }
    out
}

/// Greedy: repeatedly take the first smaller variant that still fails. `budget` bounds the
/// number of predicate evaluations.
pub fn shrink(rule: &RuleAst, doc: &DVal, budget: usize, fails: &mut dyn FnMut(&RuleAst, &DVal) -> bool) -> (RuleAst, DVal) {
    let mut r = rule.clone();
    let mut d = doc.clone();
    let mut left = budget;
    loop {
        let mut progress = false;
        for v in rule_variants(&r) {
            if left == 0 {
                return (r, d);
            }
            left -= 1;
            if fails(&v, &d) {
                r = v;
                progress = true;
                break;
            }
        }
        if progress {
            continue;
        }
        for v in doc_variants(&d) {
            if left == 0 {
                return (r, d);
            }
            left -= 1;
            if fails(&r, &v) {
                d = v;
                progress = true;
                break;
            }
        }
        if !progress {
            return (r, d);
        }
    }
}
