//! Grammar-directed rule generator, rule-aware document generator, feature tags.

use std::collections::BTreeSet;

use crate::ast::*;
use crate::dval::{parse_path, DVal};
use crate::prng::Rng;
use crate::refi::{parse_pattern, str_match, PKind};

pub const WORDS: &[&str] = &["foo", "bar", "baz", "qux", "Foo", "BAR", "fo", "ob", "a", "b", "x1", "ar", "o", ""];
pub const TOP_FIELDS: &[&str] = &["a", "b", "c", "d", "num", "flag", "tags", "n.a", "n.b", "m.x", "arr[0]", "arr[1]", "two words", "m.x[1]", "n.a[0]", "two  words", " lead", "tab\tkey", "trail ", "#phrase", "a_b1", "A.B", "arr[10]", "tags[12]", "ab", "a.b"];
pub const NEST_FIELDS: &[&str] = &["n", "m", "p"];
pub const INNER_FIELDS: &[&str] = &["a", "b", "x", "y", "q.r", "x  y"];
pub const INT_CONSTS: &[i64] = &[0, 1, 2, 5, -1, -3, 10, 7045, i64::MAX, i64::MIN, 9007199254740993, 2147483648, 4294967296, 255];
pub const FLT_CONSTS: &[f64] = &[0.0, 0.5, 1.0, 1.5, -1.5, 2.0, 10.0, 1e19, -0.0, 1e15, 1e16, 16777217.0];

/// (regex, notes): valid regexes incl. every `.*` adjacency the rewrite pass looks at
pub const REGEXES: &[&str] = &[
    "^fo+", "ba[rz]$", ".*foo.*", ".*bar", "foo.*", "b.r", "[0-9]+", "^$", "o", ".*", ".*.*", "^.*foo.*$", "(foo|bar).*", ".*(a|b)",
    "fo{2}", "\\.", "x1?", "^(?:ba)+", ".*?bar", "a\\.*", ".*+x", ".*?", "foo.*?", ".*{1}o", "fo\\\\.*", "^\\D+$", "\\S\\S", "\\W", "\\Bo", "[A-C]ar", "^\\d+$", "(?-i)Foo", "\\x42", "[[:upper:]]", "\\p{Lu}", "^.*foo", "^.*", "bar.*$", "(?m)^ba", "^.*ba[rz]$", "(?s)fo.*ar",
];

#[derive(Clone, Debug)]
pub struct GenCfg {
    pub max_idents: usize,
    pub max_entries: usize,
    pub max_list: usize,
    pub max_depth: usize,
    pub max_cond_leaves: usize,
    pub w_not: u32,
    pub cond_quant: bool,
    pub cond_cmp: bool,
    pub key_mods: bool,
    pub key_quant: bool,
    pub nested: bool,
    pub regex: bool,
    pub lists: bool,
    pub seq_idents: bool,
    pub insens: bool,
    pub wide_lists: bool,
    /// probability (pct) that fields are drawn from a narrow pool so that predicates share fields
    pub share_fields: u32,
}

impl Default for GenCfg {
    fn default() -> Self {
        GenCfg {
            max_idents: 4,
            max_entries: 3,
            max_list: 4,
            max_depth: 2,
            max_cond_leaves: 5,
            w_not: 20,
            cond_quant: true,
            cond_cmp: true,
            key_mods: true,
            key_quant: true,
            nested: true,
            regex: true,
            lists: true,
            seq_idents: true,
            insens: true,
            wide_lists: true,
            share_fields: 50,
        }
    }
}

/// lengths around the block sizes of vectorised searchers and small-string buffers
pub const PAD_LENS: &[usize] = &[7, 8, 15, 16, 17, 31, 32, 33, 63, 64, 65, 127, 128, 129, 255, 256, 257, 1000, 4097];
/// characters that are rare in test data: multi-byte (2, 3, 4 bytes), case pairs outside ASCII,
/// characters whose lower / upper case has another length, NUL, CR, tab, trailing blanks
pub const SPICE: &[&str] = &["\u{e9}", "\u{c9}", "\u{df}", "\u{130}", "\u{212a}", "\u{17f}", "\u{4e2d}", "\u{1f600}", "\u{0}", "\r\n", "\t", " ", "  ", "\u{a0}", "\u{2028}", "\u{301}", "\\", "\"", "'", "%", "[", "(", "*", "*", "?", "i"];

pub fn pad(rng: &mut Rng, n: usize) -> String {
    let unit: &str = *rng.pick(&["-", "z", "ab", "fo", "\u{e9}", "Z9", "ba"]);
    let mut s = String::new();
    while s.len() < n {
        s.push_str(unit);
    }
    s
}

pub fn word(rng: &mut Rng) -> String {
    let n = rng.weighted(&[10, 60, 25, 5]);
    let mut s = String::new();
    for _ in 0..n {
        let w: &&str = rng.pick(WORDS);
        s.push_str(w);
    }
    if rng.chance(5) {
        // a decoration at the start, at the end or in the middle
        let d: &&str = rng.pick(SPICE);
        match rng.below(3) {
            0 => s.insert_str(0, d),
            1 => s.push_str(d),
            _ => {
                let mut at = s.len() / 2;
                while !s.is_char_boundary(at) {
                    at -= 1;
                }
                s.insert_str(at, d);
            }
        }
    }
    if rng.chance(1) {
        // a long word
        let n = *rng.pick(&PAD_LENS[..16]);
        let p = pad(rng, n);
        if rng.chance(50) {
            s.push_str(&p);
        } else {
            s.insert_str(0, &p);
        }
    }
    s
}

pub fn gen_str_pattern(rng: &mut Rng, cfg: &GenCfg) -> String {
    let needle = word(rng);
    let kind = rng.weighted(&[30, 14, 14, 18, 4, if cfg.regex { 12 } else { 0 }, 8]);
    let body = match kind {
        0 => needle,
        1 => format!("{}*", needle),
        2 => format!("*{}", needle),
        3 => format!("*{}*", needle),
        4 => "*".to_string(),
        5 => format!("?{}", rng.pick(REGEXES)),
        _ => {
            // quoted literal; the content may itself look like a pattern
            let content = match rng.below(8) {
                0 => format!("{}*", needle),
                1 => format!("*{}", needle),
                2 => format!("*{}*", needle),
                3 => "*".to_string(),
                4 => format!("?{}", needle),
                5 => format!(">{}", rng.below(9)),
                _ => needle,
            };
            match rng.below(10) {
                0..=3 => format!("\"{}\"", content),
                4..=7 => format!("'{}'", content),
                // quotes that are not a pair are ordinary characters
                8 => {
                    let (a, b) = *rng.pick(&[("\"", "'"), ("'", "\""), ("\"", ""), ("", "'"), ("'", ""), ("", "\"")]);
                    format!("{}{}{}", a, content, b)
                }
                _ => format!("{}{}{}", rng.pick(&["\"", "'"]), content, rng.pick(&["\"*", "'*", "\"x", "'\""])),
            }
        }
    };
    if cfg.insens && rng.chance(30) {
        format!("i{}", body)
    } else {
        body
    }
}

pub fn gen_num_pattern(rng: &mut Rng) -> String {
    let op = rng.pick(&CmpOp::ALL).pat_text();
    if rng.chance(75) {
        format!("{}{}", op, rng.pick(INT_CONSTS))
    } else {
        format!("{}{}", op, fmt_float(*rng.pick(FLT_CONSTS)))
    }
}

fn field(rng: &mut Rng, cfg: &GenCfg, depth: usize) -> String {
    if depth > 0 {
        return rng.pick(INNER_FIELDS).to_string();
    }
    if rng.chance(cfg.share_fields) {
        rng.pick(&TOP_FIELDS[..4]).to_string()
    } else {
        rng.pick(TOP_FIELDS).to_string()
    }
}

/// a single list member / scalar value compatible with the cast modifier `m`
fn gen_scalar(rng: &mut Rng, cfg: &GenCfg, m: &KMod, depth: usize, allow_map: bool) -> RVal {
    match m {
        KMod::Int => match rng.weighted(&[50, 35, 15]) {
            0 => RVal::Int(*rng.pick(INT_CONSTS)),
            1 => RVal::Str(format!("{}{}", rng.pick(&CmpOp::ALL).pat_text(), rng.pick(INT_CONSTS))),
            _ => RVal::Bool(rng.chance(50)),
        },
        KMod::Flt => match rng.weighted(&[50, 50]) {
            0 => RVal::Float(*rng.pick(FLT_CONSTS)),
            _ => RVal::Str(format!("{}{}", rng.pick(&CmpOp::ALL).pat_text(), fmt_float(*rng.pick(FLT_CONSTS)))),
        },
        KMod::Str => match rng.weighted(&[60, 15, 10, 15]) {
            0 => RVal::Str(gen_str_pattern(rng, cfg)),
            1 => RVal::Int(*rng.pick(&INT_CONSTS[..8])),
            2 => RVal::Float(*rng.pick(FLT_CONSTS)),
            _ => RVal::Bool(rng.chance(50)),
        },
        _ => {
            let w_map = if allow_map && cfg.nested && depth < cfg.max_depth { 8 } else { 0 };
            match rng.weighted(&[50, 12, 5, 6, 4, 12, w_map]) {
                0 => RVal::Str(gen_str_pattern(rng, cfg)),
                1 => RVal::Int(*rng.pick(INT_CONSTS)),
                2 => RVal::Float(*rng.pick(FLT_CONSTS)),
                3 => RVal::Bool(rng.chance(50)),
                4 => RVal::Null,
                5 => RVal::Str(gen_num_pattern(rng)),
                _ => RVal::Map(gen_entries(rng, cfg, depth + 1)),
            }
        }
    }
}

fn class_of(v: &RVal) -> u8 {
    match v {
        RVal::Str(s) => match parse_pattern(s, false) {
            Ok(p) if matches!(p.kind, PKind::Num(..)) => 1,
            _ => 0,
        },
        RVal::Int(_) | RVal::Float(_) => 1,
        RVal::Bool(_) => 2,
        RVal::Map(_) => 3,
        RVal::Null => 4,
        RVal::List(_) => 5,
    }
}

pub fn gen_entry(rng: &mut Rng, cfg: &GenCfg, depth: usize) -> (Key, RVal) {
    let f = field(rng, cfg, depth);
    let modi = if cfg.key_mods {
        match rng.weighted(&[62, 10, 7, 5, 8, if cfg.key_quant { 8 } else { 0 }]) {
            0 => KMod::None,
            1 => KMod::Not,
            2 => KMod::Int,
            3 => KMod::Flt,
            4 => KMod::Str,
            _ => {
                if rng.chance(40) {
                    KMod::All
                } else {
                    KMod::Of(0)
                }
            }
        }
    } else {
        KMod::None
    };
    // white space next to the parentheses of a modifier is formatting, so a field whose name
    // starts or ends with white space can only be addressed by a plain key
    let modi = if f != f.trim() { KMod::None } else { modi };
    let castm = match &modi {
        KMod::Int | KMod::Flt | KMod::Str => modi.clone(),
        _ => KMod::None,
    };
    let quant = matches!(modi, KMod::All | KMod::Of(_));
    let want_list = quant || (cfg.lists && rng.chance(30));
    if want_list {
        let n = if cfg.wide_lists && rng.chance(4) { *rng.pick(&[6usize, 7, 8, 9, 15, 16, 17, 31, 32, 33, 40]) } else { 1 + rng.below(cfg.max_list) };
        let mut ms: Vec<RVal> = vec![];
        if cfg.wide_lists && matches!(castm, KMod::None) && rng.chance(4) {
            // a wide list: 60..140 needles (the per-needle counting switches representation at 64)
            let k = if rng.chance(12) { 250 + rng.below(20) } else { 60 + rng.below(80) };
            let kind = rng.below(4);
            for i in 0..k {
                ms.push(RVal::Str(match kind {
                    0 => format!("*w{}.*", i),
                    1 => format!("w{}.", i),
                    2 => format!("w{}.*", i),
                    _ => format!("*w{}.", i),
                }));
            }
        } else if matches!(castm, KMod::None | KMod::Str) && rng.chance(18) {
            // a "family": one text under several pattern kinds (members that only differ in kind,
            // case flag or wildcard placement are where batching and rewriting can slip)
            let w = loop {
                let w = word(rng);
                if !w.is_empty() {
                    break w;
                }
            };
            let regex_family = cfg.regex && rng.chance(40);
            for _ in 0..(n + 1) {
                let body = if regex_family {
                    match rng.below(7) {
                        0 => format!("?{}", w),
                        1 => format!("?.*{}", w),
                        2 => format!("?{}.*", w),
                        3 => format!("?.*{}.*", w),
                        4 => format!("?^{}", w),
                        5 => format!("?{}$", w),
                        _ => format!("?{}", rng.pick(REGEXES)),
                    }
                } else {
                    match rng.below(6) {
                        0 => w.clone(),
                        1 => format!("{}*", w),
                        2 => format!("*{}", w),
                        3 => format!("*{}*", w),
                        4 => format!("'{}'", w),
                        _ => gen_str_pattern(rng, cfg),
                    }
                };
                ms.push(RVal::Str(if cfg.insens && rng.chance(25) { format!("i{}", body) } else { body }));
            }
        } else {
            for _ in 0..n {
                let allow_map = modi == KMod::None || quant;
                ms.push(gen_scalar(rng, cfg, &castm, depth, allow_map));
            }
        }
        if quant {
            // the loader demands one member class under a quantifier
            let c = class_of(&ms[0]);
            let c = if c == 4 { 0 } else { c };
            ms.retain(|m| class_of(m) == c);
            if ms.is_empty() {
                ms.push(RVal::Str(gen_str_pattern(rng, cfg)));
            }
            if rng.chance(25) && ms.len() > 1 {
                let d = ms[0].clone();
                ms.push(d);
            }
        }
        let modi = match modi {
            KMod::Of(_) => KMod::Of(rng.below(ms.len() + 2) as u64),
            m => m,
        };
        (Key { field: f, modi }, RVal::List(ms))
    } else {
        let allow_map = modi == KMod::None;
        let v = gen_scalar(rng, cfg, &castm, depth, allow_map);
        (Key { field: f, modi }, v)
    }
}

pub fn gen_entries(rng: &mut Rng, cfg: &GenCfg, depth: usize) -> Entries {
    let n = 1 + rng.below(cfg.max_entries);
    let mut es: Entries = vec![];
    for _ in 0..n {
        let e = gen_entry(rng, cfg, depth);
        if !es.iter().any(|(k, _)| k.text() == e.0.text()) {
            es.push(e);
        }
    }
    es
}

pub fn gen_ident(rng: &mut Rng, cfg: &GenCfg) -> Ident {
    if cfg.seq_idents && rng.chance(30) {
        let n = 1 + rng.below(3);
        Ident::Seq((0..n).map(|_| gen_entries(rng, cfg, 0)).collect())
    } else {
        Ident::Map(gen_entries(rng, cfg, 0))
    }
}

fn gen_cmp(rng: &mut Rng) -> Cond {
    let f = rng.pick(&["num", "a", "b", "flag", "n.a"]).to_string();
    let g = rng.pick(&["num", "c", "b", "arr[0]"]).to_string();
    let op = *rng.pick(&CmpOp::ALL);
    match rng.below(9) {
        0 => Cond::Cmp(Opnd::Cast(CastK::Int, f), op, Opnd::Int(*rng.pick(&[0, 1, 2, 5, 10, 7045, i64::MAX]))),
        1 => Cond::Cmp(Opnd::Int(*rng.pick(&[0, 1, 2, 5, 10])), op, Opnd::Cast(CastK::Int, f)),
        2 => Cond::Cmp(Opnd::Cast(CastK::Int, f), op, Opnd::Cast(CastK::Int, g)),
        3 => Cond::Cmp(Opnd::Cast(CastK::Flt, f), op, Opnd::Flt(*rng.pick(&[0.0, 0.5, 1.0, 1.5, 2.0, 10.0]))),
        4 => Cond::Cmp(Opnd::Flt(*rng.pick(&[0.0, 0.5, 1.0, 1.5, 2.0])), op, Opnd::Cast(CastK::Flt, f)),
        5 => Cond::Cmp(Opnd::Cast(CastK::Flt, f), op, Opnd::Cast(CastK::Flt, g)),
        _ => Cond::Cmp(Opnd::Cast(CastK::Str, f), CmpOp::Eq, Opnd::Cast(CastK::Str, g)),
    }
}

fn gen_cond_leaf(rng: &mut Rng, cfg: &GenCfg, names: &[String], idents: &[(String, Ident)]) -> Cond {
    let x = rng.pick(names).clone();
    let w_q = if cfg.cond_quant { 14 } else { 0 };
    let w_c = if cfg.cond_cmp { 8 } else { 0 };
    match rng.weighted(&[70, w_q, w_c]) {
        0 => Cond::Id(x),
        1 => {
            let n_ops = match idents.iter().find(|(n, _)| *n == x).map(|(_, i)| i) {
                Some(Ident::Map(es)) => es.len(),
                Some(Ident::Seq(s)) => s.len(),
                None => 1,
            };
            if rng.chance(40) {
                Cond::All(x)
            } else {
                Cond::Of(x, rng.below(n_ops + 2) as u64)
            }
        }
        _ => gen_cmp(rng),
    }
}

fn gen_cond_tree(rng: &mut Rng, cfg: &GenCfg, names: &[String], idents: &[(String, Ident)], leaves: usize) -> Cond {
    let base = if leaves <= 1 {
        gen_cond_leaf(rng, cfg, names, idents)
    } else {
        let l = 1 + rng.below(leaves - 1);
        let a = gen_cond_tree(rng, cfg, names, idents, l);
        let b = gen_cond_tree(rng, cfg, names, idents, leaves - l);
        if rng.chance(50) {
            Cond::and(a, b)
        } else {
            Cond::or(a, b)
        }
    };
    if rng.chance(cfg.w_not) {
        if rng.chance(12) {
            Cond::not(Cond::not(base))
        } else {
            Cond::not(base)
        }
    } else {
        base
    }
}

/// several identifiers with nested blocks over the SAME field (merged by shake), and-ed / or-ed
pub fn nested_family_rule(rng: &mut Rng, cfg: &GenCfg) -> RuleAst {
    let f = rng.pick(NEST_FIELDS).to_string();
    let n = 2 + rng.below(3);
    let mut idents = vec![];
    for i in 0..n {
        let inner_n = 1 + rng.below(3);
        let mut inner: Entries = vec![];
        for _ in 0..inner_n {
            let e = gen_entry(rng, &GenCfg { nested: false, key_quant: false, wide_lists: false, ..cfg.clone() }, 1);
            if !inner.iter().any(|(k, _)| k.text() == e.0.text()) {
                inner.push(e);
            }
        }
        let mut es: Entries = vec![(Key::plain(&f), RVal::Map(inner))];
        if rng.chance(30) {
            es.push(gen_entry(rng, &GenCfg { nested: false, wide_lists: false, ..cfg.clone() }, 0));
        }
        idents.push((format!("I{}", i), Ident::Map(es)));
    }
    let and = rng.chance(65);
    let mut cond = Cond::id("I0");
    for i in 1..n {
        cond = if and { Cond::and(cond, Cond::id(&format!("I{}", i))) } else { Cond::or(cond, Cond::id(&format!("I{}", i))) };
    }
    RuleAst { idents, cond, tp: vec![], tn: vec![] }
}

/// an or-group over more than 128 distinct fields (a matrix with more columns than one byte
/// can index) plus a few shared ones
pub fn wide_matrix_rule(rng: &mut Rng) -> RuleAst {
    let cols = 120 + rng.below(90);
    let mut seq: Vec<Entries> = vec![];
    for i in 0..cols {
        let mut es: Entries = vec![(Key::plain(&format!("f{}", i)), RVal::Str(format!("v{}", i % 7)))];
        if rng.chance(50) {
            es.push((Key::plain(&format!("f{}", (i + 1) % cols)), RVal::Str(format!("v{}*", (i + 1) % 7))));
        }
        seq.push(es);
    }
    RuleAst { idents: vec![("I0".into(), Ident::Seq(seq))], cond: Cond::id("I0"), tp: vec![], tn: vec![] }
}

/// one field tested several times in one disjunction, with and without casts, by patterns whose
/// needles read as numbers or booleans (so that the same value satisfies a cast member and leaves
/// an uncast one missing): where merging searches per field, or caching a column, can mix up
/// the cast
pub fn cast_mix_rule(rng: &mut Rng) -> RuleAst {
    let f = rng.pick(&["a", "num", "b", "n.a"]).to_string();
    let g = rng.pick(&["c", "d", "flag"]).to_string();
    let n = 2 + rng.below(4);
    let str_pats = ["10", "1*", "*0", "*1*", "'10'", "i10", "?^1", "?0$", "5", "true", "i?TRUE", "i*RU*", "1.5", "*.5", "-1", "?^-"];
    let mut member = |rng: &mut Rng| -> (Key, RVal) {
        let modi = match rng.weighted(&[40, 30, 14, 10, 6]) {
            0 => KMod::None,
            1 => KMod::Str,
            2 => KMod::Int,
            3 => KMod::Flt,
            _ => KMod::Not,
        };
        let v = match &modi {
            KMod::Int => {
                if rng.chance(50) {
                    RVal::Int(*rng.pick(&[10, 1, 5, 0]))
                } else {
                    RVal::Str(format!("{}{}", rng.pick(&CmpOp::ALL).pat_text(), rng.pick(&[10, 1, 5])))
                }
            }
            KMod::Flt => {
                if rng.chance(50) {
                    RVal::Float(*rng.pick(&[10.0, 1.5, 1.0]))
                } else {
                    RVal::Str(format!("{}{}", rng.pick(&CmpOp::ALL).pat_text(), rng.pick(&["10.5", "1.5", "1.0"])))
                }
            }
            _ => match rng.below(10) {
                0 => RVal::Int(*rng.pick(&[10, 1, 5])),
                1 => RVal::Float(*rng.pick(&[10.0, 1.5])),
                2 => RVal::Bool(true),
                3 => RVal::Str(format!(">={}", rng.pick(&[10, 5, 1]))),
                _ => RVal::Str(rng.pick(&str_pats).to_string()),
            },
        };
        (Key { field: f.clone(), modi }, v)
    };
    let mut blocks: Vec<Entries> = vec![];
    let two_key = rng.chance(50);
    for i in 0..n {
        let mut es = vec![member(rng)];
        if two_key || rng.chance(20) {
            let e = (Key::plain(&g), RVal::Str(format!("{}*", ["x", "y", "x", "z"][i % 4])));
            if rng.chance(50) {
                es.push(e);
            } else {
                es.insert(0, e);
            }
        }
        blocks.push(es);
    }
    if rng.chance(50) {
        RuleAst { idents: vec![("I0".into(), Ident::Seq(blocks))], cond: Cond::id("I0"), tp: vec![], tn: vec![] }
    } else {
        let idents: Vec<(String, Ident)> = blocks.into_iter().enumerate().map(|(i, es)| (format!("I{}", i), Ident::Map(es))).collect();
        let mut cond = Cond::id("I0");
        for i in 1..idents.len() {
            cond = Cond::or(cond, Cond::id(&format!("I{}", i)));
        }
        RuleAst { idents, cond, tp: vec![], tn: vec![] }
    }
}

pub fn gen_rule(rng: &mut Rng, cfg: &GenCfg) -> RuleAst {
    if cfg.nested && rng.chance(8) {
        return nested_family_rule(rng, cfg);
    }
    if cfg.key_mods && cfg.seq_idents && rng.chance(4) {
        return cast_mix_rule(rng);
    }
    // now and then a big rule: many identifiers and a long condition, or deeper nesting
    let big = cfg.wide_lists && rng.chance(2);
    let deep = GenCfg { max_depth: 4, ..cfg.clone() };
    let cfg = if cfg.nested && cfg.max_depth == 2 && rng.chance(3) { &deep } else { cfg };
    let n = if big { *rng.pick(&[8usize, 9, 16, 17, 33]) } else { 1 + rng.below(cfg.max_idents) };
    let names: Vec<String> = (0..n).map(|i| format!("I{}", i)).collect();
    let small = GenCfg { max_entries: 2, max_list: 2, wide_lists: false, ..cfg.clone() };
    let idents: Vec<(String, Ident)> = names.iter().map(|n| (n.clone(), gen_ident(rng, if big { &small } else { cfg }))).collect();
    let leaves = if big { n + rng.below(n) } else { 1 + rng.below(cfg.max_cond_leaves) };
    let cond = gen_cond_tree(rng, cfg, &names, &idents, leaves);
    RuleAst { idents, cond, tp: vec![], tn: vec![] }
}

// ---------------------------------------------------------------------------------------------
// rule-aware documents

/// A leaf predicate with the chain of nested-mapping fields that contain it.
#[derive(Clone, Debug)]
pub struct Leaf {
    pub containers: Vec<String>,
    pub field: String,
    pub modi: KMod,
    pub val: RVal,
    /// set for the left field of a condition comparison between two casts: the other field
    pub pair_with: Option<String>,
}

fn collect_entries(es: &Entries, containers: &[String], out: &mut Vec<Leaf>) {
    for (k, v) in es {
        match v {
            RVal::Map(inner) => {
                let mut c = containers.to_vec();
                c.push(k.field.clone());
                collect_entries(inner, &c, out);
            }
            RVal::List(ms) => {
                for m in ms {
                    if let RVal::Map(inner) = m {
                        let mut c = containers.to_vec();
                        c.push(k.field.clone());
                        collect_entries(inner, &c, out);
                    } else {
                        out.push(Leaf { containers: containers.to_vec(), field: k.field.clone(), modi: k.modi.clone(), val: m.clone(), pair_with: None });
                    }
                }
            }
            _ => out.push(Leaf { containers: containers.to_vec(), field: k.field.clone(), modi: k.modi.clone(), val: v.clone(), pair_with: None }),
        }
    }
}

pub fn collect_leaves(rule: &RuleAst) -> Vec<Leaf> {
    let mut out = vec![];
    for (_, i) in &rule.idents {
        match i {
            Ident::Map(es) => collect_entries(es, &[], &mut out),
            Ident::Seq(s) => {
                for es in s {
                    collect_entries(es, &[], &mut out)
                }
            }
        }
    }
    let mut cf = vec![];
    rule.cond.cast_fields(&mut cf);
    for f in cf {
        out.push(Leaf { containers: vec![], field: f, modi: KMod::Int, val: RVal::Int(1), pair_with: None });
    }
    // comparisons between two casts: the two fields get related values
    fn pairs(c: &Cond, out: &mut Vec<(String, String)>) {
        match c {
            Cond::And(a, b) | Cond::Or(a, b) => {
                pairs(a, out);
                pairs(b, out);
            }
            Cond::Not(a) | Cond::Paren(a) => pairs(a, out),
            Cond::Cmp(Opnd::Cast(_, f), _, Opnd::Cast(_, g)) => out.push((f.clone(), g.clone())),
            _ => {}
        }
    }
    let mut ps = vec![];
    pairs(&rule.cond, &mut ps);
    for (f, g) in ps {
        out.push(Leaf { containers: vec![], field: f, modi: KMod::Str, val: RVal::Null, pair_with: Some(g) });
    }
    out
}

fn flip_case(s: &str, rng: &mut Rng) -> String {
    s.chars()
        .map(|c| {
            if rng.chance(50) {
                if c.is_ascii_lowercase() {
                    c.to_ascii_uppercase()
                } else {
                    c.to_ascii_lowercase()
                }
            } else {
                c
            }
        })
        .collect()
}

/// a haystack for a string pattern with the wanted truth (best effort: rejection sampling
/// against the reference relation)
pub fn hay_for(rng: &mut Rng, pat: &str, want: bool) -> String {
    let p = match parse_pattern(pat, false) {
        Ok(p) => p,
        Err(_) => return word(rng),
    };
    let needle = match &p.kind {
        PKind::Contains(n) | PKind::Ends(n) | PKind::Starts(n) | PKind::Exact(n) => n.clone(),
        _ => String::new(),
    };
    for _ in 0..24 {
        if rng.chance(5) {
            // the needle at the very start / end / in the middle of a long value
            let n = *rng.pick(PAD_LENS);
            let m = *rng.pick(&PAD_LENS[..9]);
            let (pa, qa) = (pad(rng, n), pad(rng, m));
            let cand = match rng.below(4) {
                0 => format!("{}{}", pa, needle),
                1 => format!("{}{}", needle, pa),
                2 => format!("{}{}{}", pa, needle, qa),
                _ => pa,
            };
            if str_match(&p, &cand) == want {
                return cand;
            }
            continue;
        }
        let cand = match rng.below(11) {
            0 => needle.clone(),
            1 => format!("{}{}", needle, word(rng)),
            2 => format!("{}{}", word(rng), needle),
            3 => format!("{}{}{}", word(rng), needle, word(rng)),
            4 => flip_case(&needle, rng),
            5 => {
                let mut n = needle.clone();
                n.pop();
                n
            }
            6 => format!("{}{}", flip_case(&needle, rng), word(rng)),
            7 => word(rng),
            8 => format!("{}\n{}{}", word(rng), word(rng), needle),
            9 => format!("{}\n{}", needle, word(rng)),
            _ => format!("{}{}", word(rng), word(rng)),
        };
        // now and then one inner character is replaced by a line-break-like character (what `.`,
        // `$`, `\s` and trimming treat specially)
        let is_regex = matches!(p.kind, PKind::Regex(_));
        let cand = if rng.chance(if is_regex { 20 } else { 6 }) && cand.chars().count() >= 2 {
            let n = cand.chars().count();
            let at = rng.below(n);
            let c = *rng.pick(&['\r', '\r', '\r', '\n', '\u{85}', '\u{2028}', '\u{b}', '\u{c}', '\t']);
            cand.chars().enumerate().map(|(i, x)| if i == at { c } else { x }).collect()
        } else {
            cand
        };
        if str_match(&p, &cand) == want {
            return cand;
        }
    }
    word(rng)
}

fn num_near(rng: &mut Rng, c: i128) -> DVal {
    let d = *rng.pick(&[0i128, 0, 0, 1, -1, 2, -7]);
    let x = c + d;
    match rng.below(6) {
        0 | 1 => {
            if x >= 0 && x <= u64::MAX as i128 {
                DVal::UInt(x as u64)
            } else if x >= i64::MIN as i128 && x < 0 {
                DVal::Int(x as i64)
            } else {
                DVal::Int(0)
            }
        }
        2 => {
            if x >= i64::MIN as i128 && x <= i64::MAX as i128 {
                DVal::Int(x as i64)
            } else {
                DVal::UInt(u64::MAX)
            }
        }
        3 => DVal::Float(x as f64),
        4 => DVal::Float(x as f64 + 0.5),
        _ => DVal::Str(format!("{}", x)),
    }
}

pub fn junk_scalar(rng: &mut Rng) -> DVal {
    match rng.below(10) {
        0 => DVal::Null,
        1 => DVal::Bool(rng.chance(50)),
        2 => DVal::UInt(rng.below(4) as u64),
        3 => DVal::Int(-(rng.below(4) as i64) - 1),
        4 => DVal::Float(*rng.pick(&[0.0, -0.0, 1.0, 1.5, -0.5, f64::NAN, f64::INFINITY, 1e300])),
        5 => DVal::Str(rng.pick(&["true", "false", "1", "0", "5", "1.5", "-1", "", "null"]).to_string()),
        6 => DVal::UInt(*rng.pick(&[u64::MAX, i64::MAX as u64, i64::MAX as u64 + 1, 7045])),
        _ => {
            if rng.chance(12) {
                DVal::Str(format!("{}\n{}", word(rng), word(rng)))
            } else {
                DVal::Str(word(rng))
            }
        }
    }
}

/// a value for the leaf: satisfying, near miss, wrong kind, array, special
pub fn value_for(rng: &mut Rng, leaf: &Leaf) -> DVal {
    let scen = rng.weighted(&[42, 26, 14, 12, 6]);
    let base = |rng: &mut Rng, want: bool| -> DVal {
        match &leaf.val {
            RVal::Str(s) => match parse_pattern(s, false) {
                Ok(p) => match &p.kind {
                    PKind::Num(_, c) => {
                        let cf = c.clone();
                        let c = match c {
                            crate::refi::NumC::I(i) => *i as i128,
                            crate::refi::NumC::F(f) => *f as i128,
                        };
                        let _ = want;
                        if let (crate::refi::NumC::F(f), true) = (cf, rng.chance(35)) {
                            DVal::Float(*rng.pick(&[f, f64::from_bits(f.to_bits() + 1), f64::from_bits(f.to_bits().wrapping_sub(1)), f + f64::EPSILON / 2.0, -f]))
                        } else {
                            num_near(rng, c)
                        }
                    }
                    _ => {
                        let h = hay_for(rng, s, want);
                        if (leaf.modi == KMod::Str && rng.chance(30)) || (h.parse::<i64>().is_ok() && rng.chance(35)) {
                            // a scalar whose text might match
                            match h.parse::<i64>() {
                                Ok(i) => DVal::int(i),
                                Err(_) => match h.as_str() {
                                    "true" => DVal::Bool(true),
                                    "false" => DVal::Bool(false),
                                    _ => DVal::Str(h),
                                },
                            }
                        } else {
                            DVal::Str(h)
                        }
                    }
                },
                Err(_) => DVal::Str(word(rng)),
            },
            RVal::Int(i) => {
                if leaf.modi == KMod::Str {
                    if want {
                        if rng.chance(50) { DVal::int(*i) } else { DVal::Str(i.to_string()) }
                    } else {
                        DVal::int(i.wrapping_add(1))
                    }
                } else {
                    num_near(rng, *i as i128)
                }
            }
            RVal::Float(f) => {
                if rng.chance(50) {
                    DVal::Float(if want { *f } else if rng.chance(40) { f64::from_bits(f.to_bits() + 1) } else { *f + 0.25 })
                } else if leaf.modi == KMod::Str {
                    DVal::Str(f.to_string())
                } else {
                    num_near(rng, *f as i128)
                }
            }
            RVal::Bool(b) => match rng.below(4) {
                0 => DVal::UInt(*b as u64),
                1 => DVal::Str(b.to_string()),
                _ => DVal::Bool(if want { *b } else { !*b }),
            },
            RVal::Null => {
                if want {
                    DVal::Null
                } else {
                    junk_scalar(rng)
                }
            }
            _ => junk_scalar(rng),
        }
    };
    match scen {
        0 => base(rng, true),
        1 => base(rng, false),
        2 => junk_scalar(rng),
        3 => {
            let n = rng.below(4);
            DVal::Arr((0..n).map(|_| if rng.chance(60) { let w = rng.chance(40); base(rng, w) } else { junk_scalar(rng) }).collect())
        }
        _ => match rng.below(4) {
            0 => DVal::Null,
            1 => DVal::Arr(vec![]),
            2 => DVal::Obj(vec![]),
            _ => DVal::obj(vec![("a", junk_scalar(rng)), ("x", DVal::s("foo"))]),
        },
    }
}

/// Descend into (creating on the way) the object addressed by `key` inside `obj`; returns the
/// working object, or None when the existing structure is in the way.
fn ensure_obj<'a>(obj: &'a mut DVal, key: &str, rng: &mut Rng, arrays: bool) -> Option<&'a mut DVal> {
    let path = parse_path(key)?;
    let mut cur = obj;
    for seg in &path {
        if !matches!(cur, DVal::Obj(_)) {
            return None;
        }
        if cur.get(&seg.name).is_none() {
            let fresh = match seg.index {
                Some(i) => DVal::Arr((0..=i).map(|_| DVal::Obj(vec![])).collect()),
                None => {
                    if arrays && rng.chance(22) {
                        // array of objects: several working objects (keys of one block may end up
                        // split across elements) and sometimes a bystander
                        let mut v = vec![DVal::Obj(vec![])];
                        for _ in 0..rng.below(3) {
                            v.push(DVal::Obj(vec![]));
                        }
                        if rng.chance(40) {
                            v.push(DVal::obj(vec![("a", junk_scalar(rng)), ("b", DVal::s("bar"))]));
                        }
                        if rng.chance(30) {
                            v.insert(0, junk_scalar(rng));
                        }
                        DVal::Arr(v)
                    } else {
                        DVal::Obj(vec![])
                    }
                }
            };
            cur.set(&seg.name, fresh);
        }
        let DVal::Obj(es) = cur else { return None };
        let slot = es.iter_mut().find(|(k, _)| *k == seg.name).map(|(_, v)| v)?;
        cur = match (seg.index, slot) {
            (Some(i), DVal::Arr(a)) => a.get_mut(i)?,
            (Some(_), _) => return None,
            (None, DVal::Arr(a)) => {
                let objs: Vec<usize> = a.iter().enumerate().filter(|(_, x)| matches!(x, DVal::Obj(_))).map(|(i, _)| i).collect();
                if objs.is_empty() {
                    return None;
                }
                // mostly the first object, sometimes another one
                let pick = if rng.chance(65) { objs[0] } else { objs[rng.below(objs.len())] };
                &mut a[pick]
            }
            (None, s) => s,
        };
    }
    if matches!(cur, DVal::Obj(_)) {
        Some(cur)
    } else {
        None
    }
}

/// set `key` (a path) in `obj` to `v` unless something is already there
fn place(obj: &mut DVal, key: &str, v: DVal, rng: &mut Rng) {
    let Some(path) = parse_path(key) else { return };
    let (last, prefix) = path.split_last().unwrap();
    let target = if prefix.is_empty() {
        Some(obj)
    } else {
        let pk: Vec<String> = prefix
            .iter()
            .map(|s| match s.index {
                Some(i) => format!("{}[{}]", s.name, i),
                None => s.name.clone(),
            })
            .collect();
        ensure_obj(obj, &pk.join("."), rng, false)
    };
    let Some(t) = target else { return };
    match last.index {
        None => {
            if t.get(&last.name).is_none() {
                t.set(&last.name, v);
            }
        }
        Some(i) => {
            if t.get(&last.name).is_none() {
                let mut a: Vec<DVal> = (0..i).map(|_| junk_scalar(rng)).collect();
                a.push(v);
                if rng.chance(30) {
                    a.push(junk_scalar(rng));
                }
                t.set(&last.name, DVal::Arr(a));
            } else if let Some(DVal::Arr(a)) = t.get(&last.name).cloned().as_ref() {
                let mut a = a.clone();
                while a.len() <= i {
                    a.push(junk_scalar(rng));
                }
                t.set(&last.name, DVal::Arr(a));
            }
        }
    }
}

/// a field name that a sloppy lookup could confuse with `name` (another case, `_` for `-`, a blank
/// at the end, a longer or shorter name); None when nothing different comes out
pub fn lookalike(rng: &mut Rng, name: &str) -> Option<String> {
    // only the last path segment is altered, and never an index
    let (head, last) = match name.rfind('.') {
        Some(i) => (&name[..=i], &name[i + 1..]),
        None => ("", name),
    };
    let (base, idx) = match last.find('[') {
        Some(i) => (&last[..i], &last[i..]),
        None => (last, ""),
    };
    let alt = match rng.below(8) {
        0 => base.to_ascii_uppercase(),
        1 => base.to_ascii_lowercase(),
        2 => {
            let mut c = base.chars();
            match c.next() {
                Some(f) => format!("{}{}", if f.is_ascii_lowercase() { f.to_ascii_uppercase() } else { f.to_ascii_lowercase() }, c.as_str()),
                None => String::new(),
            }
        }
        3 => base.replace('_', "-"),
        4 => base.replace('-', "_").replace(' ', "_"),
        5 => format!("{} ", base),
        6 => format!("{}{}", base, base.chars().last().unwrap_or('x')),
        _ => base.trim().to_string(),
    };
    if alt == base || alt.is_empty() || alt.contains('.') || alt.contains('[') {
        return None;
    }
    Some(format!("{}{}{}", head, alt, idx))
}

pub fn gen_doc(rng: &mut Rng, leaves: &[Leaf]) -> DVal {
    let mut doc = DVal::Obj(vec![]);
    let mut order: Vec<usize> = (0..leaves.len()).collect();
    rng.shuffle(&mut order);
    let absent_pct = *rng.pick(&[5u32, 15, 25, 45]);
    // fields compared with each other: equal, equal up to case, equal as text but of different
    // kinds, numerically equal but written differently, or unrelated
    for leaf in leaves.iter().filter(|l| l.pair_with.is_some()) {
        if !rng.chance(60) {
            continue;
        }
        let g = leaf.pair_with.clone().unwrap();
        let w = loop {
            let w = word(rng);
            if !w.is_empty() {
                break w;
            }
        };
        let (a, b) = match rng.below(11) {
            9 => (DVal::Float(0.3), DVal::Float(0.30000000000000004)),
            10 => (DVal::Float(1e-20), DVal::Float(2e-20)),
            0 => (DVal::Str(w.clone()), DVal::Str(w.clone())),
            1 | 2 => (DVal::Str(w.clone()), DVal::Str(flip_case(&w, rng))),
            3 => (DVal::UInt(5), DVal::s("5")),
            4 => (DVal::Float(5.0), DVal::UInt(5)),
            5 => (DVal::Float(0.0), DVal::Float(-0.0)),
            6 => (DVal::Bool(true), DVal::s("true")),
            7 => (DVal::s("5"), DVal::s("5.0")),
            _ => (DVal::Str(w.clone()), DVal::Str(format!("{}x", w))),
        };
        let (a, b) = if rng.chance(50) { (a, b) } else { (b, a) };
        place(&mut doc, &leaf.field, a, rng);
        place(&mut doc, &g, b, rng);
    }
    for i in order {
        let leaf = &leaves[i];
        if leaf.pair_with.is_some() {
            continue;
        }
        if rng.chance(absent_pct) {
            continue;
        }
        // sometimes the container itself has the wrong shape
        if !leaf.containers.is_empty() && rng.chance(6) {
            let c = &leaf.containers[0];
            let v = match rng.below(5) {
                0 => junk_scalar(rng),
                1 => DVal::Arr(vec![]),
                2 => DVal::Arr(vec![junk_scalar(rng)]),
                // an object with none of the block's keys (empty: nothing at all to find)
                3 => DVal::Obj(vec![]),
                _ => DVal::Arr(vec![DVal::Obj(vec![])]),
            };
            place(&mut doc, c, v, rng);
            continue;
        }
        let v = value_for(rng, leaf);
        let mut target: Option<&mut DVal> = Some(&mut doc);
        for c in &leaf.containers {
            target = match target {
                Some(t) => ensure_obj(t, c, rng, true),
                None => None,
            };
        }
        if let Some(t) = target {
            // now and then the value sits under a look-alike name: the addressed field is absent
            let name = if rng.chance(3) { lookalike(rng, &leaf.field).unwrap_or(leaf.field.clone()) } else { leaf.field.clone() };
            place(t, &name, v, rng);
        }
    }
    // a root field whose NAME is the text of an addressed dotted / indexed key (`n.a`, `arr[0]`):
    // a path never addresses it
    for leaf in leaves.iter() {
        if leaf.containers.is_empty() && (leaf.field.contains('.') || leaf.field.contains('[')) && rng.chance(5) {
            let v = value_for(rng, leaf);
            if let DVal::Obj(es) = &mut doc {
                if !es.iter().any(|(k, _)| *k == leaf.field) {
                    es.push((leaf.field.clone(), v));
                }
            }
        }
    }
    for _ in 0..rng.below(3) {
        let k = rng.pick(&["zz", "a_", "extra", "n.zz", "\u{1}"]).to_string();
        let v = junk_scalar(rng);
        place(&mut doc, &k, v, rng);
    }
    doc
}

// ---------------------------------------------------------------------------------------------
// feature tags (for stratification and for distinct-case keys)

fn entries_tags(es: &Entries, t: &mut BTreeSet<&'static str>) {
    if es.len() >= 2 {
        t.insert("map-multi");
    }
    for (k, v) in es {
        match &k.modi {
            KMod::None => {}
            KMod::Not => {
                t.insert("key-not");
            }
            KMod::Int => {
                t.insert("key-int");
            }
            KMod::Flt => {
                t.insert("key-flt");
            }
            KMod::Str => {
                t.insert("key-str");
            }
            KMod::All => {
                t.insert("key-all");
            }
            KMod::Of(0) => {
                t.insert("key-of0");
            }
            KMod::Of(_) => {
                t.insert("key-of");
            }
        }
        if k.field.contains('.') {
            t.insert("dotted");
        }
        if k.field.contains('[') {
            t.insert("indexed");
        }
        val_tags(v, t);
    }
}

fn val_tags(v: &RVal, t: &mut BTreeSet<&'static str>) {
    match v {
        RVal::Str(s) => {
            if let Ok(p) = parse_pattern(s, false) {
                if p.insens {
                    t.insert("insens");
                }
                t.insert(match p.kind {
                    PKind::Regex(_) => "regex",
                    PKind::Num(..) => "numpat",
                    PKind::Any => "any",
                    PKind::Contains(_) => "contains",
                    PKind::Ends(_) => "ends",
                    PKind::Starts(_) => "starts",
                    PKind::Exact(_) => "exact",
                });
            }
        }
        RVal::Int(_) => {
            t.insert("int");
        }
        RVal::Float(_) => {
            t.insert("float");
        }
        RVal::Bool(_) => {
            t.insert("bool");
        }
        RVal::Null => {
            t.insert("null");
        }
        RVal::List(ms) => {
            t.insert(if ms.len() == 1 { "list1" } else { "list" });
            for m in ms {
                val_tags(m, t);
            }
        }
        RVal::Map(es) => {
            t.insert("nested");
            entries_tags(es, t);
        }
    }
}

fn cond_tags(c: &Cond, t: &mut BTreeSet<&'static str>) {
    match c {
        Cond::Id(_) => {}
        Cond::And(a, b) => {
            t.insert("and");
            cond_tags(a, t);
            cond_tags(b, t);
        }
        Cond::Or(a, b) => {
            t.insert("or");
            cond_tags(a, t);
            cond_tags(b, t);
        }
        Cond::Not(a) => {
            t.insert("not");
            if matches!(**a, Cond::Not(_)) {
                t.insert("notnot");
            }
            cond_tags(a, t);
        }
        Cond::Paren(a) => cond_tags(a, t),
        Cond::All(_) => {
            t.insert("cond-all");
        }
        Cond::Of(_, 0) => {
            t.insert("cond-of0");
        }
        Cond::Of(..) => {
            t.insert("cond-of");
        }
        Cond::Cmp(l, _, r) => {
            t.insert("cmp");
            for o in [l, r] {
                if let Opnd::Cast(k, _) = o {
                    t.insert(match k {
                        CastK::Int => "cast-int",
                        CastK::Flt => "cast-flt",
                        CastK::Str => "cast-str",
                    });
                }
            }
        }
    }
}

pub fn tags(rule: &RuleAst) -> BTreeSet<&'static str> {
    let mut t = BTreeSet::new();
    for (_, i) in &rule.idents {
        match i {
            Ident::Map(es) => entries_tags(es, &mut t),
            Ident::Seq(s) => {
                t.insert("seq");
                for es in s {
                    entries_tags(es, &mut t);
                }
            }
        }
    }
    cond_tags(&rule.cond, &mut t);
    t
}

pub fn tag_key(t: &BTreeSet<&'static str>) -> String {
    t.iter().cloned().collect::<Vec<_>>().join(",")
}

pub fn doc_kinds(d: &DVal) -> String {
    let mut k = BTreeSet::new();
    fn go(d: &DVal, k: &mut BTreeSet<&'static str>) {
        k.insert(d.kind());
        match d {
            DVal::Arr(a) => a.iter().for_each(|x| go(x, k)),
            DVal::Obj(o) => o.iter().for_each(|(_, v)| go(v, k)),
            _ => {}
        }
    }
    if let DVal::Obj(o) = d {
        for (_, v) in o {
            go(v, &mut k);
        }
    }
    k.into_iter().collect::<Vec<_>>().join(",")
}
