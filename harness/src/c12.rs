//! C12 — loading, optimising and matching are deterministic and pure.

use std::process::Command;
use std::sync::atomic::{AtomicU64, Ordering};
use std::sync::Arc;

use serde_json::json;

use crate::ast::RuleAst;
use crate::dval::{to_yaml_map, DVal};
use crate::eng::{self, Sw};
use crate::gen::{self, GenCfg};
use crate::prng::{fnv, Rng};
use crate::reps::to_rec;
use crate::run::{finish, par_shards, Ctx, Meta, Report};

fn merge_heavy_cfg() -> GenCfg {
    GenCfg { share_fields: 85, max_entries: 4, max_list: 4, ..Default::default() }
}

/// `of(k, n)` / `all(k)` over 64..140 needles (per-needle counting beyond the 64-bit bitmap)
fn wide_quantifier_rule(rng: &mut Rng) -> RuleAst {
    use crate::ast::*;
    let k = 64 + rng.below(70);
    let ms: Vec<RVal> = (0..k).map(|i| RVal::Str(format!("*w{}.*", i))).collect();
    let modi = if rng.chance(30) { KMod::All } else { KMod::Of(1 + rng.below(3) as u64) };
    RuleAst { idents: vec![("I0".into(), Ident::Map(vec![(Key::with("a", modi), RVal::List(ms))]))], cond: Cond::id("I0"), tp: vec![], tn: vec![] }
}

/// three or four and-ed nested blocks over one field, and documents whose field is an array of
/// a fixed number of objects with the satisfying entries scattered over random positions
fn nested_array_case(rng: &mut Rng, ndocs: usize) -> Option<(RuleAst, String, Vec<DVal>)> {
    use crate::ast::*;
    let nb = 3 + rng.below(2);
    let keys = ["a", "b", "x", "y"];
    let vals = ["foo", "bar", "baz", "qux"];
    let idents: Vec<(String, Ident)> = (0..nb).map(|i| (format!("I{}", i), Ident::Map(vec![(Key::plain("n"), RVal::Map(vec![(Key::plain(keys[i]), RVal::Str(vals[i].into()))]))]))).collect();
    let mut cond = Cond::id("I0");
    for i in 1..nb {
        cond = Cond::and(cond, Cond::id(&format!("I{}", i)));
    }
    let ast = RuleAst { idents, cond, tp: vec![], tn: vec![] };
    let text = ast.to_text()?;
    let len = 2 + rng.below(3);
    let docs = (0..ndocs)
        .map(|_| {
            let mut elems: Vec<Vec<(String, DVal)>> = (0..len).map(|_| vec![]).collect();
            for i in 0..nb {
                if rng.chance(88) {
                    let at = rng.below(len);
                    elems[at].push((keys[i].to_string(), DVal::s(vals[i])));
                } else {
                    let at = rng.below(len);
                    elems[at].push((keys[i].to_string(), DVal::s("nope")));
                }
            }
            DVal::Obj(vec![("n".into(), DVal::Arr(elems.into_iter().map(DVal::Obj).collect()))])
        })
        .collect();
    Some((ast, text, docs))
}

/// a chain of 8..12 one-key nested blocks (deep recursion in the solver) with arrays of objects
/// on the way down
fn deep_chain_case(rng: &mut Rng, ndocs: usize) -> Option<(RuleAst, String, Vec<DVal>)> {
    use crate::ast::*;
    let depth = 8 + rng.below(5);
    let mut v = RVal::Str("foo*".into());
    for _ in 0..depth {
        v = RVal::Map(vec![(Key::plain("n"), v)]);
    }
    let RVal::Map(es) = v else { return None };
    let ast = RuleAst { idents: vec![("I0".into(), Ident::Map(es))], cond: Cond::id("I0"), tp: vec![], tn: vec![] };
    let text = ast.to_text()?;
    let docs = (0..ndocs)
        .map(|_| {
            let mut d = DVal::s(if rng.chance(70) { "foobar" } else { "nope" });
            for level in 0..depth {
                let o = DVal::Obj(vec![("n".into(), d)]);
                d = if level % 3 == 1 { DVal::Arr(vec![DVal::Obj(vec![]), DVal::s("x"), o.clone(), o]) } else { o };
            }
            match d {
                DVal::Obj(_) => d,
                other => DVal::Obj(vec![("n".into(), other)]),
            }
        })
        .collect();
    Some((ast, text, docs))
}

/// regexes over one field in several or-ed identifiers that each compile but are too big to
/// compile as one set: whatever the optimiser learns from failing here must not leak into other rules
fn explosive_regex_case(rng: &mut Rng, ndocs: usize) -> Option<(RuleAst, String, Vec<DVal>)> {
    use crate::ast::*;
    let unit = *rng.pick(&["\\pL", "\\w"]);
    let idents: Vec<(String, Ident)> = (0..3).map(|i| (format!("I{}", i), Ident::Map(vec![(Key::plain("a"), RVal::Str(format!("?^{}{{{}}}$", unit, 100 + i)))]))).collect();
    let cond = Cond::or(Cond::or(Cond::id("I0"), Cond::id("I1")), Cond::id("I2"));
    let ast = RuleAst { idents, cond, tp: vec![], tn: vec![] };
    let text = ast.to_text()?;
    let docs = (0..ndocs).map(|i| DVal::Obj(vec![("a".into(), DVal::Str("x".repeat(98 + i)))])).collect();
    Some((ast, text, docs))
}

fn gen_case(rng: &mut Rng, ndocs: usize) -> Option<(RuleAst, String, Vec<DVal>)> {
    if rng.chance(12) {
        return nested_array_case(rng, ndocs);
    }
    if rng.chance(6) {
        return deep_chain_case(rng, ndocs);
    }

    let ast = match rng.below(20) {
        0..=6 => crate::c16::matrix_rule(rng),
        7..=10 => gen::nested_family_rule(rng, &merge_heavy_cfg()),
        11 => wide_quantifier_rule(rng),
        _ => gen::gen_rule(rng, &merge_heavy_cfg()),
    };
    let text = ast.to_text()?;
    let leaves = gen::collect_leaves(&ast);
    let mut docs: Vec<DVal> = (0..ndocs).map(|_| gen::gen_doc(rng, &leaves)).collect();
    if leaves.len() >= 60 {
        // wide list: values hitting different small sets of needles
        for d in docs.iter_mut() {
            let n = rng.below(5);
            let s: String = (0..n).map(|_| format!("w{}.", rng.below(leaves.len()))).collect();
            *d = DVal::Obj(vec![("a".into(), DVal::Str(format!("_{}", s)))]);
        }
    }
    Some((ast, text, docs))
}

/// the digest lines of the cross-process comparison: one per rule
pub fn digest_lines(seed: u64, count: usize) -> Vec<String> {
    let reverse = std::env::var("TMON_DIGEST_REVERSE").is_ok();
    let mut rng = Rng::new(seed, "C12-digest", 0);
    let cases: Vec<Option<(RuleAst, String, Vec<DVal>)>> = (0..count).map(|i| if i % 300 == 7 { explosive_regex_case(&mut rng, 6) } else { gen_case(&mut rng, 6) }).collect();
    let mut out = vec![String::new(); count];
    let order: Vec<usize> = if reverse { (0..count).rev().collect() } else { (0..count).collect() };
    for i in order {
        let line = digest_line(i, &cases[i]);
        out[i] = line;
    }
    out
}

fn digest_line(i: usize, case: &Option<(RuleAst, String, Vec<DVal>)>) -> String {
    let mut out: Vec<String> = vec![];
    {
        let Some((_, text, docs)) = case else {
            return format!("{} -", i);
        };
        let Some(rule) = eng::load_ok(text) else {
            return format!("{} rejected", i);
        };
        let mut h = String::new();
        for sw in [Sw(15), Sw(2), Sw(10)] {
            match eng::optimise(&rule, sw) {
                Ok(o) => {
                    h.push_str(&eng::printed(&o));
                    for d in docs {
                        h.push(if eng::matches(&o, &to_yaml_map(d)).unwrap_or(false) { '1' } else { '0' });
                    }
                }
                Err(_) => h.push('P'),
            }
        }
        out.push(format!("{} {:016x}", i, fnv(&h)));
    }
    out.pop().unwrap_or_default()
}

pub fn digest(ctx: &Ctx) -> i32 {
    for l in digest_lines(ctx.seed, ctx.size(1500, 20000)) {
        println!("{}", l);
    }
    0
}

/// toggle the `i` prefix of every string pattern (numeric patterns are left alone)
fn toggle_case_flags(r: &mut RuleAst) {
    use crate::ast::*;
    fn walk(es: &mut Entries) {
        for (k, v) in es.iter_mut() {
            let numeric_key = matches!(k.modi, KMod::Int | KMod::Flt);
            let fix = |s: &mut String| {
                let body = s.strip_prefix('i').unwrap_or(s);
                if numeric_key || [">=", ">", "<=", "<", "="].iter().any(|p| body.starts_with(p)) {
                    return;
                }
                if s.starts_with('i') {
                    s.remove(0);
                } else {
                    s.insert(0, 'i');
                }
            };
            match v {
                RVal::Str(s) => fix(s),
                RVal::List(ms) => ms.iter_mut().for_each(|m| match m {
                    RVal::Str(s) => fix(s),
                    RVal::Map(inner) => walk(inner),
                    _ => {}
                }),
                RVal::Map(inner) => walk(inner),
                _ => {}
            }
        }
    }
    for (_, id) in r.idents.iter_mut() {
        match id {
            Ident::Map(es) => walk(es),
            Ident::Seq(s) => s.iter_mut().for_each(walk),
        }
    }
}

/// verdict of a freshly loaded (and, if `sw` is not 0, freshly optimised) rule on one document,
/// computed on a fresh thread: no state of any earlier evaluation can be involved
fn fresh_thread_verdict(text: &str, doc: &DVal, sw: Sw) -> Option<bool> {
    let text = text.to_string();
    let doc = doc.clone();
    std::thread::spawn(move || {
        let rule = eng::load_ok(&text)?;
        let rule = if sw.0 == 0 { rule } else { eng::optimise(&rule, sw).ok()? };
        eng::matches(&rule, &to_yaml_map(&doc)).ok()
    })
    .join()
    .ok()
    .flatten()
}

/// (c) threads sharing one rule
pub fn threads_part(ctx: &Ctx, rep: &mut Report, rounds: usize) {
        let mut rng = Rng::new(ctx.seed, "C12-threads", 0);
        let nthreads = 16usize;
        let clock = Arc::new(AtomicU64::new(0));
        let inflight = Arc::new(AtomicU64::new(0));
        let overlapped = Arc::new(AtomicU64::new(0));
        let max_inflight = Arc::new(AtomicU64::new(0));
        let mut overlap_hist = vec![0u64; nthreads + 1];
        for round in 0..rounds {
            let Some((_, text, docs)) = gen_case(&mut rng, 10) else { continue };
            let Some(rule) = eng::load_ok(&text) else { continue };
            let variants: Vec<tau_engine::Rule> = vec![rule.clone(), eng::optimise(&rule, Sw(15)).unwrap_or(rule.clone()), eng::optimise(&rule, Sw(2)).unwrap_or(rule.clone())];
            for (vi, r) in variants.iter().enumerate() {
                let base: Vec<Option<bool>> = docs.iter().map(|d| eng::matches(r, &to_yaml_map(d)).ok()).collect();
                let hist: Vec<Arc<AtomicU64>> = (0..=nthreads).map(|_| Arc::new(AtomicU64::new(0))).collect();
                let bad: std::sync::Mutex<Option<(usize, usize, Option<bool>)>> = std::sync::Mutex::new(None);
                std::thread::scope(|s| {
                    for t in 0..nthreads {
                        let (docs, base, bad, hist) = (&docs, &base, &bad, &hist);
                        let (clock, inflight, overlapped, max_inflight) = (clock.clone(), inflight.clone(), overlapped.clone(), max_inflight.clone());
                        let mut trng = Rng::new(ctx.seed, "C12-t", (round * 64 + t) as u64);
                        s.spawn(move || {
                            let mut order: Vec<usize> = (0..docs.len()).collect();
                            for _ in 0..ctx.size(6, 20) {
                                trng.shuffle(&mut order);
                                for &i in &order {
                                    let rec = to_rec(&docs[i], None, true);
                                    let _call = clock.fetch_add(1, Ordering::SeqCst);
                                    let n = inflight.fetch_add(1, Ordering::SeqCst) + 1;
                                    if n > 1 {
                                        overlapped.fetch_add(1, Ordering::Relaxed);
                                    }
                                    max_inflight.fetch_max(n, Ordering::Relaxed);
                                    hist[(n as usize).min(hist.len() - 1)].fetch_add(1, Ordering::Relaxed);
                                    let v = eng::matches(r, &rec).ok();
                                    inflight.fetch_sub(1, Ordering::SeqCst);
                                    let _ret = clock.fetch_add(1, Ordering::SeqCst);
                                    if v != base[i] {
                                        *bad.lock().unwrap() = Some((t, i, v));
                                    }
                                }
                            }
                        });
                    }
                });
                for (k, h) in hist.iter().enumerate() {
                    overlap_hist[k] += h.load(Ordering::Relaxed);
                }
                rep.evaluations += (nthreads * docs.len() * ctx.size(6, 20)) as u64;
                if let Some((t, i, v)) = bad.into_inner().unwrap() {
                    rep.violation(
                        "thread-dependent",
                        &format!("c12-threads:{}", ["unoptimised", "optimised", "shaken"][vi]),
                        &format!("thread {} got {:?} for a document whose single-threaded verdict is {:?} while 16 threads shared one {} rule", t, v, base[i], ["unoptimised", "optimised", "shaken"][vi]),
                        json!({"rule": text, "doc": crate::mon::doc_text(&docs[i]), "doc_json": docs[i].to_json_text(), "documents": docs.iter().map(|d| d.to_json_text()).collect::<Vec<_>>()}),
                    );
                }
            }
        }
        rep.add("thread_calls_overlapping_another_call", overlapped.load(Ordering::Relaxed));
        rep.add("thread_max_calls_in_flight", max_inflight.load(Ordering::Relaxed));
        rep.add("thread_logical_clock_events", clock.load(Ordering::Relaxed));
        rep.add("thread_distinct_in_flight_levels_seen", overlap_hist.iter().filter(|x| **x > 0).count() as u64);
        if overlapped.load(Ordering::Relaxed) == 0 {
            rep.inconclusive.push("no two matches() calls ever overlapped".into());
        }
    }

/// only part (c), for the ThreadSanitizer stage
pub fn threads_only(ctx: &Ctx) -> i32 {
    let mut rep = Report::new();
    threads_part(ctx, &mut rep, ctx.size(25, 120));
    println!("C12-THREADS evaluations={} overlapping_calls={} max_in_flight={} violations={}", rep.evaluations, rep.get("thread_calls_overlapping_another_call"), rep.get("thread_max_calls_in_flight"), rep.violations.len());
    for v in &rep.violations {
        println!("VIOLATION-DETAIL {}", v.what);
    }
    if rep.violations.is_empty() { 0 } else { 1 }
}

pub fn run(ctx: &Ctx) -> i32 {
    // (b) cross-process: two children, compared with each other and with this process
    let exe = std::env::current_exe().expect("own path");
    let spawn = |rev: bool| {
        Command::new(&exe)
            .arg("c12-digest")
            .args(["--tier", if ctx.quick() { "quick" } else { "thorough" }, "--seed", &ctx.seed.to_string(), "--verif", &ctx.verif_dir])
            .envs(if rev { vec![("TMON_DIGEST_REVERSE", "1")] } else { vec![] })
            .stdout(std::process::Stdio::piped())
            .spawn()
    };
    // (the second child works through the rule list backwards: whatever one rule leaves behind
    // in the process meets the other rules in a different state)
    let (c1, c2) = (spawn(false), spawn(true));
    let shards = ctx.size(48, 192);
    let per = ctx.size(60, 200);
    let repeats = ctx.size(20, 120);
    let rep = par_shards(ctx, shards, |shard| {
        let mut rep = Report::new();
        let mut rng = Rng::new(ctx.seed, "C12", shard as u64);
        for n in 0..per {
            if ctx.expired() {
                rep.truncated = true;
                break;
            }
            let Some((ast, text, docs)) = gen_case(&mut rng, 6) else { continue };
            let Some(rule) = eng::load_ok(&text) else {
                rep.count("rule_rejected");
                continue;
            };
            rep.count("rules");
            let maps: Vec<serde_yaml::Mapping> = docs.iter().map(to_yaml_map).collect();
            if n % 3 == 0 {
                // first pollute whatever state a cache keyed too coarsely might keep: the twin rule
                // (every string pattern with its case flag toggled) on the same documents, on
                // this same thread, before the rule itself is ever evaluated here (a memo is
                // usually first-writer-wins)
                {
                    let mut twin = ast.clone();
                    toggle_case_flags(&mut twin);
                    if let Some(tr) = twin.to_text().and_then(|t| eng::load_ok(&t)) {
                        for m in &maps {
                            rep.evaluations += 1;
                            let _ = eng::matches(&tr, m);
                        }
                        if let Ok(to) = eng::optimise(&tr, Sw(15)) {
                            for m in &maps {
                                let _ = eng::matches(&to, m);
                            }
                        }
                    }
                }
            }
            // (a0) repeated loads print the same
            let p0 = eng::printed(&rule);
            for _ in 0..3 {
                rep.evaluations += 1;
                if eng::load_ok(&text).map(|r| eng::printed(&r)) != Some(p0.clone()) {
                    rep.violation("load-nondeterministic", "c12-load", "two loads of the same text print different expressions", json!({"rule": text}));
                    break;
                }
            }
            // (a) repeated optimise calls: one printed form, one verdict vector
            for a in crate::eng::take_arms() {
                if a.1 > 0 {
                    *rep.arms.entry(a.0.to_string()).or_insert(0) += a.1;
                }
            }
            for sw in Sw::ALL16.iter().skip(1) {
                let reps = if sw.0 == 15 || sw.shake() && sw.matrix() { repeats } else { repeats / 4 + 2 };
                let mut first: Option<(String, Vec<bool>)> = None;
                for _ in 0..reps {
                    let Ok(o) = eng::optimise(&rule, *sw) else { break };
                    let pr = eng::printed(&o);
                    let vv: Vec<bool> = maps.iter().map(|m| eng::matches(&o, m).unwrap_or(false)).collect();
                    rep.evaluations += 1 + maps.len() as u64;
                    match &first {
                        None => first = Some((pr, vv)),
                        Some((p1, v1)) => {
                            if *v1 != vv {
                                rep.violation("verdict-nondeterministic", &format!("c12-optimise-verdict:{}", sw.name()), &format!("two optimise[{}] calls on the same rule give different verdicts", sw.name()), json!({"rule": text, "switches": sw.0, "doc": crate::mon::doc_text(&docs[0])}));
                                break;
                            }
                            if *p1 != pr {
                                rep.violation(
                                    "print-nondeterministic",
                                    "c12-optimise-print",
                                    &format!("two optimise[{}] calls on the same rule print different expressions", sw.name()),
                                    json!({"rule": text, "switches": sw.0, "first": p1, "second": pr}),
                                );
                                break;
                            }
                        }
                    }
                }
            }
            let multi = crate::eng::take_arms();
            let mut multi_key = false;
            for a in multi {
                if a.1 > 0 {
                    *rep.arms.entry(a.0.to_string()).or_insert(0) += a.1;
                    if a.0 == "OPT_MERGE_MAP_MULTI_KEY" || a.0 == "OPT_MATRIX_BUILT" {
                        multi_key = true;
                    }
                }
            }
            if multi_key {
                rep.nontrivial_key(&p0);
                rep.count("rules_with_multi_key_merge_maps");
            }
            // (d) purity: per-document verdicts do not depend on what was matched before
            if n % 3 == 0 {
                let fresh: Vec<Option<bool>> = docs.iter().map(|d| fresh_thread_verdict(&text, d, Sw(0))).collect();
                let fresh_opt: Vec<Option<bool>> = docs.iter().map(|d| fresh_thread_verdict(&text, d, Sw(15))).collect();
                let opt = eng::optimise(&rule, Sw(15)).ok();
                let before = (format!("{}", rule.detection.expression), format!("{:?}", rule));
                let k = docs.len().min(5);
                let perms = crate::c17::all_perms(k);
                for perm in perms.iter().step_by(if ctx.quick() { 7 } else { 1 }) {
                    for (which, r) in [("unoptimised", Some(&rule)), ("optimised", opt.as_ref())] {
                        let Some(r) = r else { continue };
                        for &i in perm {
                            rep.evaluations += 1;
                            let v = eng::matches(r, &maps[i]).ok();
                            let want = if which == "unoptimised" { fresh[i] } else { fresh_opt[i] };
                            if v != want {
                                rep.violation(
                                    "history-dependent",
                                    &format!("c12-history:{}", which),
                                    &format!("{} rule: verdict on a document is {:?} after matching other documents first but {:?} on a fresh rule in a fresh thread (order {:?})", which, v, want, perm),
                                    json!({"rule": text, "doc": crate::mon::doc_text(&docs[i]), "doc_json": docs[i].to_json_text(), "order": perm, "documents": docs.iter().map(|d| d.to_json_text()).collect::<Vec<_>>()}),
                                );
                                break;
                            }
                        }
                    }
                }
                if (format!("{}", rule.detection.expression), format!("{:?}", rule)) != before {
                    rep.violation("rule-modified", "c12-rule-modified", "matching changed the rule's Display/Debug form", json!({"rule": text}));
                }
            }
            if n == 0 && shard < 2 {
                rep.sample(json!({"rule": text, "optimise_calls_per_switch_set": repeats, "documents": docs.len(), "tags": gen::tag_key(&gen::tags(&ast))}));
            }
        }
        rep
    });
    let mut rep = rep;
    // (e) values that compare equal but are not the same value (0.0 / -0.0, 1 / 1.0 / "1" / true,
    // 2^53 as integer and as double): every ordered pair of them matched one after the other on one
    // rule instance and one thread - the second verdict is the verdict of a fresh rule on a fresh
    // thread. (A memo of "the last value" keyed by equality is blind to these pairs.)
    {
        let vals: Vec<DVal> = vec![
            DVal::Float(0.0), DVal::Float(-0.0), DVal::UInt(0), DVal::Int(0), DVal::s("0"), DVal::s("-0"), DVal::UInt(1), DVal::Int(1), DVal::Float(1.0), DVal::Bool(true), DVal::s("1"), DVal::s("1.0"), DVal::Bool(false),
            DVal::UInt(1 << 53), DVal::Float(9007199254740992.0), DVal::UInt((1 << 53) + 1), DVal::Float(1e15), DVal::UInt(1000000000000000), DVal::s("true"), DVal::Null, DVal::Float(f64::NAN),
        ];
        let pats: Vec<(&str, &str)> = vec![
            ("str(f)", "'0'"), ("str(f)", "'-0'"), ("str(f)", "'-*'"), ("str(f)", "'*0'"), ("str(f)", "'1'"), ("str(f)", "'?^-'"), ("str(f)", "['1', 'true']"), ("str(f)", "'1*'"), ("str(f)", "'?e'"),
            ("int(f)", "0"), ("int(f)", "1"), ("int(f)", "'>0'"), ("flt(f)", "0.0"), ("flt(f)", "'<0.5'"), ("flt(f)", "1.0"),
            ("f", "0"), ("f", "1"), ("f", "0.0"), ("f", "'>=0'"), ("f", "true"), ("f", "'1'"), ("f", "9007199254740992"), ("f", "9007199254740993"), ("f", "'>9007199254740992'"), ("f", "'i*E*'"), ("not(f)", "0"), ("all(f)", "['*1*', '*0*']"), ("of(f, 1)", "[0, 1]"),
        ];
        let mut cells = 0u64;
        for (key, pat) in &pats {
            let text = format!("detection:\n  A:\n    {}: {}\n  condition: A\ntrue_positives: []\ntrue_negatives: []\n", key, pat);
            let Some(rule) = eng::load_ok(&text) else {
                rep.count("equal_value_rules_rejected");
                continue;
            };
            let docs: Vec<DVal> = vals.iter().map(|v| DVal::Obj(vec![("f".into(), v.clone())])).collect();
            for swv in [Sw(0), Sw(15)] {
                let fresh: Vec<Option<bool>> = docs.iter().map(|d| fresh_thread_verdict(&text, d, swv)).collect();
                let r = if swv.0 == 0 { rule.clone() } else { eng::optimise(&rule, swv).unwrap_or(rule.clone()) };
                let maps: Vec<serde_yaml::Mapping> = docs.iter().map(to_yaml_map).collect();
                for i in 0..docs.len() {
                    for j in 0..docs.len() {
                        cells += 1;
                        rep.evaluations += 2;
                        let _ = eng::matches(&r, &maps[i]);
                        let v = eng::matches(&r, &maps[j]).ok();
                        if v != fresh[j] {
                            rep.violation(
                                "history-dependent",
                                "c12-history:equal-values",
                                &format!("{}: {} -> the verdict on {} is {:?} right after matching {} but {:?} on a fresh rule in a fresh thread", key, pat, docs[j].to_json_text(), v, docs[i].to_json_text(), fresh[j]),
                                json!({"rule": text, "doc": crate::mon::doc_text(&docs[j]), "doc_json": docs[j].to_json_text(), "order": [0, 1], "documents": [docs[i].to_json_text(), docs[j].to_json_text()], "switches": swv.0}),
                            );
                            break;
                        }
                    }
                }
            }
        }
        rep.add("equal_value_history_cells", cells);
    }
    threads_part(ctx, &mut rep, ctx.size(40, 400));
    // (b) collect the children
    let mine = digest_lines(ctx.seed, ctx.size(1500, 20000));
    let mut outs = vec![];
    for c in [c1, c2] {
        match c.and_then(|c| c.wait_with_output()) {
            Ok(o) if o.status.success() => outs.push(String::from_utf8_lossy(&o.stdout).lines().map(|s| s.to_string()).collect::<Vec<_>>()),
            _ => rep.inconclusive.push("a digest child process failed".into()),
        }
    }
    for (name, other) in outs.iter().enumerate() {
        rep.evaluations += other.len() as u64;
        if other.len() != mine.len() {
            rep.inconclusive.push("digest line counts differ".into());
            continue;
        }
        for (a, b) in mine.iter().zip(other.iter()) {
            if a != b {
                rep.violation("process-dependent", "c12-process", &format!("printed optimised expression / verdicts differ between this process and child process {}: {} vs {}", name + 1, a, b), json!({"mine": a, "theirs": b, "seed": ctx.seed}));
                break;
            }
        }
    }
    rep.add("cross_process_rules", mine.len() as u64);
    crate::regress::replay_witnesses(ctx, &mut rep);
    finish(
        ctx,
        rep,
        Meta {
            rule: format!("merge-heavy generated rules (shared fields, sequences of mappings, matrix-forming): (a) {} optimise calls per rule for the full switch set and the shake+matrix sets (fewer for the others), all 15 sets: one printed form and one verdict vector; three reloads print the same; (b) two child processes recompute digests of printed optimised expressions and verdict vectors for a seeded rule list - one of them working through the list backwards - and must agree with this process line by line; (c) 16 threads share one &Rule (unoptimised, optimised, shaken), each matching the document multiset in its own order through recording documents that yield inside find(): every verdict must equal the single-threaded baseline (overlap of calls is measured with an in-flight counter and a logical clock); (d) every order (sampled in quick) of a 5-document sequence on one rule instance gives the verdicts a fresh rule in a fresh thread gives, and Display/Debug of the rule is unchanged; (e) every ordered pair of 21 values that compare equal without being the same (0.0 / -0.0, 1 / 1.0 / '1' / true, 2^53 as integer and double ...) matched back to back under 28 cast / plain / quantified predicates, second verdict vs a fresh rule in a fresh thread. non-trivial = rule whose optimisation filled a merge map with >= 2 keys or built a matrix; distinct by printed expression", repeats),
            exhaustive: false,
            assumptions: vec!["a sample of thread interleavings, widened by yields inside find(); sanitizer stages (TSan / Miri) are separate thorough steps".into()],
            min_nontrivial: 30,
            extra: json!({}),
        },
    )
}
