//! SplitMix64: the only source of randomness in the harness. One stream per (seed, property, shard).

#[derive(Clone, Debug)]
pub struct Rng(pub u64);

impl Rng {
    pub fn new(seed: u64, property: &str, shard: u64) -> Rng {
        let mut h: u64 = 0xcbf29ce484222325;
        for b in property.bytes() {
            h ^= b as u64;
            h = h.wrapping_mul(0x100000001b3);
        }
        let mut r = Rng(seed
            .wrapping_mul(0x9E3779B97F4A7C15)
            .wrapping_add(h)
            .wrapping_add(shard.wrapping_mul(0xD1B54A32D192ED03)));
        r.next();
        r.next();
        r
    }
    pub fn next(&mut self) -> u64 {
        self.0 = self.0.wrapping_add(0x9E3779B97F4A7C15);
        let mut z = self.0;
        z = (z ^ (z >> 30)).wrapping_mul(0xBF58476D1CE4E5B9);
        z = (z ^ (z >> 27)).wrapping_mul(0x94D049BB133111EB);
        z ^ (z >> 31)
    }
    /// uniform in 0..n (n > 0)
    pub fn below(&mut self, n: usize) -> usize {
        (self.next() % (n as u64)) as usize
    }
    /// uniform in lo..=hi
    pub fn range(&mut self, lo: i64, hi: i64) -> i64 {
        lo + (self.next() % ((hi - lo + 1) as u64)) as i64
    }
    /// true with probability pct/100
    pub fn chance(&mut self, pct: u32) -> bool {
        (self.next() % 100) < pct as u64
    }
    pub fn pick<'a, T>(&mut self, xs: &'a [T]) -> &'a T {
        &xs[self.below(xs.len())]
    }
    pub fn pick_str<'a>(&mut self, xs: &[&'a str]) -> &'a str {
        xs[self.below(xs.len())]
    }
    /// index chosen by integer weights
    pub fn weighted(&mut self, ws: &[u32]) -> usize {
        let total: u32 = ws.iter().sum();
        let mut x = (self.next() % total as u64) as u32;
        for (i, w) in ws.iter().enumerate() {
            if x < *w {
                return i;
            }
            x -= *w;
        }
        ws.len() - 1
    }
    pub fn shuffle<T>(&mut self, xs: &mut [T]) {
        for i in (1..xs.len()).rev() {
            let j = self.below(i + 1);
            xs.swap(i, j);
        }
    }
    pub fn fork(&mut self) -> Rng {
        Rng(self.next())
    }
}

/// FNV-1a, used for distinct-case keys and replay file names.
pub fn fnv(s: &str) -> u64 {
    let mut h: u64 = 0xcbf29ce484222325;
    for b in s.bytes() {
        h ^= b as u64;
        h = h.wrapping_mul(0x100000001b3);
    }
    h
}
