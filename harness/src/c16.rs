//! C16 — matching reads only the fields the rule names (recording Document + metamorphic
//! junk-field insertion).

use std::collections::BTreeSet;
use std::sync::{Arc, Mutex};

use serde_json::json;

use crate::ast::*;
use crate::dval::{to_yaml_map, DVal};
use crate::eng::{self, Sw};
use crate::gen::{self, GenCfg};
use crate::mon;
use crate::prng::Rng;
use crate::reps::{to_getobj, to_rec, FindLog};
use crate::run::{finish, par_shards, Ctx, Meta, Report};

/// keys written at the top level of the identifiers (plus cast arguments of the condition), and
/// keys written inside nested blocks
pub fn rule_keys(r: &RuleAst) -> (BTreeSet<String>, BTreeSet<String>) {
    fn walk(es: &Entries, depth: usize, top: &mut BTreeSet<String>, nested: &mut BTreeSet<String>) {
        for (k, v) in es {
            if depth == 0 {
                top.insert(k.field.clone());
            } else {
                nested.insert(k.field.clone());
            }
            match v {
                RVal::Map(inner) => walk(inner, depth + 1, top, nested),
                RVal::List(ms) => {
                    for m in ms {
                        if let RVal::Map(inner) = m {
                            walk(inner, depth + 1, top, nested);
                        }
                    }
                }
                _ => {}
            }
        }
    }
    let (mut top, mut nested) = (BTreeSet::new(), BTreeSet::new());
    for (_, i) in &r.idents {
        match i {
            Ident::Map(es) => walk(es, 0, &mut top, &mut nested),
            Ident::Seq(s) => s.iter().for_each(|es| walk(es, 0, &mut top, &mut nested)),
        }
    }
    let mut cf = vec![];
    r.cond.cast_fields(&mut cf);
    top.extend(cf);
    (top, nested)
}

/// keys written in nested blocks, per location: the chain of container keys (indices removed,
/// joined by '.') -> the keys written in the blocks at that location
pub fn nested_keys_by_location(r: &RuleAst) -> std::collections::BTreeMap<String, BTreeSet<String>> {
    fn strip(k: &str) -> String {
        k.split('.').map(|seg| seg.split('[').next().unwrap_or(seg)).collect::<Vec<_>>().join(".")
    }
    fn walk(es: &Entries, at: &str, out: &mut std::collections::BTreeMap<String, BTreeSet<String>>) {
        for (k, v) in es {
            let here = if at.is_empty() { strip(&k.field) } else { format!("{}.{}", at, strip(&k.field)) };
            let mut inner_blocks: Vec<&Entries> = vec![];
            match v {
                RVal::Map(inner) => inner_blocks.push(inner),
                RVal::List(ms) => {
                    for m in ms {
                        if let RVal::Map(inner) = m {
                            inner_blocks.push(inner);
                        }
                    }
                }
                _ => {}
            }
            for inner in inner_blocks {
                let set = out.entry(here.clone()).or_default();
                for (ik, _) in inner.iter() {
                    set.insert(ik.field.clone());
                }
                walk(inner, &here, out);
            }
        }
    }
    let mut out = std::collections::BTreeMap::new();
    for (_, i) in &r.idents {
        match i {
            Ident::Map(es) => walk(es, "", &mut out),
            Ident::Seq(s) => s.iter().for_each(|es| walk(es, "", &mut out)),
        }
    }
    out
}

/// single lookup steps the provided `Object::find` may make: location (path of names, no
/// indices) -> the names that may be asked for there. A key `a.b[1].c` written at location L
/// allows `a` at L, `b` at L.a and `c` at L.a.b; a nested block sits at the location its key
/// addresses.
pub fn allowed_gets(r: &RuleAst) -> std::collections::BTreeMap<String, BTreeSet<String>> {
    type Out = std::collections::BTreeMap<String, BTreeSet<String>>;
    fn add_key(at: &str, field: &str, out: &mut Out) -> String {
        let mut loc = at.to_string();
        for seg in field.split('.') {
            let name = if seg.ends_with(']') && seg.contains('[') { seg.split('[').next().unwrap_or(seg) } else { seg };
            out.entry(loc.clone()).or_default().insert(name.to_string());
            loc = if loc.is_empty() { name.to_string() } else { format!("{}.{}", loc, name) };
        }
        loc
    }
    fn walk(es: &Entries, at: &str, out: &mut Out) {
        for (k, v) in es {
            let here = add_key(at, &k.field, out);
            match v {
                RVal::Map(inner) => walk(inner, &here, out),
                RVal::List(ms) => {
                    for m in ms {
                        if let RVal::Map(inner) = m {
                            walk(inner, &here, out);
                        }
                    }
                }
                _ => {}
            }
        }
    }
    let mut out = Out::new();
    for (_, i) in &r.idents {
        match i {
            Ident::Map(es) => walk(es, "", &mut out),
            Ident::Seq(s) => s.iter().for_each(|es| walk(es, "", &mut out)),
        }
    }
    let mut cf = vec![];
    r.cond.cast_fields(&mut cf);
    for f in cf {
        add_key("", &f, &mut out);
    }
    out
}

/// matrix-friendly rules: sequences of mappings over a few shared fields
pub fn matrix_rule(rng: &mut Rng) -> RuleAst {
    let cfg = GenCfg { share_fields: 100, max_entries: 3, key_quant: false, ..Default::default() };
    let nid = 1 + rng.below(2);
    let mut idents = vec![];
    for i in 0..nid {
        let rows = 2 + rng.below(4);
        let seq: Vec<Entries> = (0..rows).map(|_| gen::gen_entries(rng, &cfg, 0)).collect();
        idents.push((format!("I{}", i), Ident::Seq(seq)));
    }
    let cond = match rng.below(5) {
        0 if nid > 1 => Cond::or(Cond::id("I0"), Cond::id("I1")),
        1 if nid > 1 => Cond::and(Cond::id("I0"), Cond::id("I1")),
        2 => Cond::All("I0".into()),
        3 => Cond::Of("I0".into(), 1 + rng.below(2) as u64),
        _ => Cond::id("I0"),
    };
    RuleAst { idents, cond, tp: vec![], tn: vec![] }
}

/// a pure chain of nested blocks (each block has one key), optionally next to another entry
fn chain_rule(rng: &mut Rng) -> RuleAst {
    let depth = 2 + rng.below(3);
    let mut v = RVal::Str(gen::gen_str_pattern(rng, &GenCfg::default()));
    let names = ["n", "m", "p", "q", "x"];
    let mut used = vec![];
    for d in (0..depth).rev() {
        let k = names[(d + rng.below(2)) % names.len()];
        used.push(k);
        v = RVal::Map(vec![(Key::plain(k), v)]);
    }
    let RVal::Map(mut es) = v else { unreachable!() };
    if rng.chance(40) {
        es.push((Key::plain("a"), RVal::Str("foo*".into())));
    }
    let id = if rng.chance(30) { Ident::Seq(vec![es.clone(), es]) } else { Ident::Map(es) };
    RuleAst { idents: vec![("I0".into(), id)], cond: Cond::id("I0"), tp: vec![], tn: vec![] }
}

/// keys with an index on a non-first segment (`u.r[1]`), whose inner names do not occur at the
/// top level of the rule
fn indexed_rule(rng: &mut Rng) -> RuleAst {
    let keys = ["u.r[1]", "u.r[0]", "p.q[2]", "u.s[0].t", "u.v.w[1]", "p.q[0]", "donn\u{e9}es[0]", "u.entr\u{e9}es[1]", "na\u{ef}ve[2].t", "\u{e9}t\u{e9}[0]"];
    let n = 1 + rng.below(3);
    let mut es: Entries = vec![];
    for _ in 0..n {
        let k = rng.pick_str(&keys);
        if !es.iter().any(|(x, _)| x.field == k) {
            es.push((Key::plain(k), RVal::Str(gen::gen_str_pattern(rng, &GenCfg::default()))));
        }
    }
    let id = if rng.chance(40) { Ident::Seq(es.iter().map(|e| vec![e.clone()]).collect()) } else { Ident::Map(es) };
    RuleAst { idents: vec![("I0".into(), id)], cond: Cond::id("I0"), tp: vec![], tn: vec![] }
}

const JUNK_KEYS: &[&str] = &["\u{0}", "\u{1}", "\u{2}", "\u{3}", "\u{4}", "\u{5}", "\u{7f}", "", " ", "A", "I0", "condition", "zz9"];

pub fn run(ctx: &Ctx) -> i32 {
    let shards = ctx.size(64, 512);
    let per = ctx.size(150, 1200);
    let rep = par_shards(ctx, shards, |shard| {
        let mut rep = Report::new();
        let mut rng = Rng::new(ctx.seed, "C16", shard as u64);
        let cfg = GenCfg { share_fields: 80, ..Default::default() };
        for n in 0..per {
            if ctx.expired() {
                rep.truncated = true;
                break;
            }
            let ast = match rng.below(10) {
                0..=4 => matrix_rule(&mut rng),
                5 => chain_rule(&mut rng),
                7 => indexed_rule(&mut rng),
                6 if n % 40 == 7 => gen::wide_matrix_rule(&mut rng),
                _ => gen::gen_rule(&mut rng, &cfg),
            };
            let Some(text) = ast.to_text() else { continue };
            let Some(rule) = eng::load_ok(&text) else {
                rep.count("rule_rejected");
                continue;
            };
            rep.count("rules");
            let (top, nested) = rule_keys(&ast);
            let by_loc = nested_keys_by_location(&ast);
            let gets = allowed_gets(&ast);
            let leaves = gen::collect_leaves(&ast);
            let docs: Vec<DVal> = (0..ctx.size(5, 8)).map(|_| gen::gen_doc(&mut rng, &leaves)).collect();
            let variants: Vec<(Sw, tau_engine::Rule)> = Sw::ALL16.iter().filter_map(|s| if s.0 == 0 { Some((*s, rule.clone())) } else { eng::optimise(&rule, *s).ok().map(|r| (*s, r)) }).collect();
            let has_matrix = variants.iter().any(|(_, r)| eng::printed(r).contains("matrix("));
            if has_matrix {
                rep.count("rules_with_matrix");
                rep.nontrivial_key(&format!("{}|{}", gen::tag_key(&gen::tags(&ast)), eng::printed(&variants.last().unwrap().1).matches("matrix(").count()));
            }
            for doc in &docs {
                // junk: fields no predicate addresses (never a prefix of an addressed path)
                let mut with_junk = doc.clone();
                let mut altered = doc.clone();
                // top-level fields named like the *inner* segments of addressed dotted paths are
                // unaddressed too (e.g. a top-level `roles` when the rule reads `user.roles[1]`)
                let inner_names: Vec<String> = top
                    .iter()
                    .flat_map(|t| t.split('.').skip(1).map(|seg| seg.split('[').next().unwrap_or(seg).to_string()).collect::<Vec<_>>())
                    .chain(nested.iter().map(|n| n.split('.').next().unwrap_or(n).split('[').next().unwrap_or(n).to_string()))
                    .collect();
                for name in &inner_names {
                    if rng.chance(60) && !top.iter().any(|t| t == name || t.starts_with(&format!("{}.", name)) || t.starts_with(&format!("{}[", name))) {
                        // filled with values made for the predicate that reads the inner
                        // segment of that name: a read fabricated from the wrong place then
                        // tends to flip the verdict
                        let leaf = leaves.iter().find(|l| l.field.split('.').skip(1).chain(l.containers.iter().skip(1).map(|c| c.as_str())).any(|seg| seg.split('[').next() == Some(name.as_str())) || (!l.containers.is_empty() && l.field.split('[').next() == Some(name.as_str())));
                        let v = match leaf {
                            Some(l) if rng.chance(70) => {
                                let x = gen::value_for(&mut rng, l);
                                let y = gen::value_for(&mut rng, l);
                                DVal::Arr(vec![x.clone(), y, x])
                            }
                            _ => DVal::Arr(vec![DVal::s("foo"), gen::junk_scalar(&mut rng), DVal::s("bar")]),
                        };
                        with_junk.set(name, v);
                        altered.set(name, DVal::Arr(vec![DVal::s("x1"), DVal::s("x1"), DVal::s("x1")]));
                    }
                }
                for _ in 0..1 + rng.below(3) {
                    let k = rng.pick_str(JUNK_KEYS);
                    if top.iter().any(|t| t == k || t.starts_with(&format!("{}.", k)) || t.starts_with(&format!("{}[", k))) {
                        continue;
                    }
                    with_junk.set(k, gen::junk_scalar(&mut rng));
                    altered.set(k, DVal::s("foo"));
                }
                // a field named like YAML's merge key, holding values made for the rule's own
                // predicates: it is a field like any other, and the rule does not name it
                if rng.chance(60) && !top.contains("<<") {
                    let mut inner: Vec<(String, DVal)> = vec![];
                    for l in leaves.iter().filter(|l| l.containers.is_empty() && !l.field.contains('.') && !l.field.contains('[')) {
                        if rng.chance(60) && !inner.iter().any(|(k, _)| *k == l.field) {
                            inner.push((l.field.clone(), gen::value_for(&mut rng, l)));
                        }
                    }
                    let merged = if rng.chance(30) { DVal::Arr(vec![DVal::Obj(inner.clone()), DVal::Obj(inner)]) } else { DVal::Obj(inner) };
                    with_junk.set("<<", merged);
                    altered.set("<<", DVal::obj(vec![("a", DVal::s("foo")), ("b", DVal::UInt(1))]));
                    rep.count("merge_key_junk");
                }
                // junk inside nested objects too
                if let DVal::Obj(es) = &mut with_junk {
                    for (_, v) in es.iter_mut() {
                        if let DVal::Obj(_) = v {
                            let k = rng.pick_str(&["\u{0}", "\u{1}", "zz9"]);
                            if !nested.contains(k) {
                                v.set(k, DVal::s("v"));
                            }
                        }
                    }
                }
                // an addressed field (top level, or inside a top-level object) renamed to a look-alike
                let renamed_pair: Option<(DVal, DVal)> = {
                    let mut out = None;
                    if let DVal::Obj(es) = doc {
                        let cands: Vec<usize> = (0..es.len()).collect();
                        if !cands.is_empty() {
                            let i = cands[rng.below(cands.len())];
                            let (name, val) = es[i].clone();
                            let inner = matches!(val, DVal::Obj(ref o) if !o.is_empty()) && rng.chance(50);
                            if inner {
                                if let DVal::Obj(o) = &val {
                                    let j = rng.below(o.len());
                                    if let Some(alt) = gen::lookalike(&mut rng, &o[j].0) {
                                        // (the look-alike must not be addressed itself: neither as a key of a
                                        // block nor through a dotted top-level key)
                                        let dotted = format!("{}.{}", name, alt);
                                        let addressed = nested.contains(&alt) || top.iter().any(|t| *t == dotted || t.starts_with(&format!("{}.", dotted)) || t.starts_with(&format!("{}[", dotted)));
                                        if !o.iter().any(|(k, _)| *k == alt) && !addressed {
                                            let mut removed_inner = o.clone();
                                            let (_, v) = removed_inner.remove(j);
                                            let mut renamed_inner = removed_inner.clone();
                                            renamed_inner.push((alt, v));
                                            let (mut a, mut b) = (doc.clone(), doc.clone());
                                            a.set(&name, DVal::Obj(removed_inner));
                                            b.set(&name, DVal::Obj(renamed_inner));
                                            out = Some((a, b));
                                        }
                                    }
                                }
                            } else if let Some(alt) = gen::lookalike(&mut rng, &name) {
                                let addressed = top.iter().any(|t| *t == alt || t.starts_with(&format!("{}.", alt)) || t.starts_with(&format!("{}[", alt)));
                                if !addressed && !es.iter().any(|(k, _)| *k == alt) {
                                    let mut a = doc.clone();
                                    a.remove(&name);
                                    let mut b = a.clone();
                                    b.set(&alt, val);
                                    out = Some((a, b));
                                }
                            }
                        }
                    }
                    out
                };
                if renamed_pair.is_some() {
                    rep.count("lookalike_pairs");
                }
                for (sw, r) in &variants {
                    let log: FindLog = Arc::new(Mutex::new(vec![]));
                    let rec = to_rec(doc, Some(log.clone()), false);
                    rep.evaluations += 1;
                    let base = match eng::matches(r, &rec) {
                        Ok(v) => v,
                        Err(p) => {
                            rep.violation("panic", &format!("panic:{}", p.sig()), &format!("matches on a recording document panicked: {}", p.sig()), mon::case(&text, doc, Some(*sw), json!("no-panic"), json!(p.sig()), json!({})));
                            continue;
                        }
                    };
                    // offline check of the event log against the keys the rule writes
                    let events = log.lock().unwrap().clone();
                    rep.add("find_events", events.len() as u64);
                    for (at, key) in &events {
                        // a nested object is asked only for the keys written in the blocks that
                        // sit at its location (its path with array indices removed)
                        let loc: String = at.split('.').map(|seg| seg.split('[').next().unwrap_or(seg)).collect::<Vec<_>>().join(".");
                        let ok = if at.is_empty() { top.contains(key) } else { by_loc.get(&loc).map(|s| s.contains(key)).unwrap_or(false) };
                        if !ok {
                            rep.violation(
                                "foreign-key",
                                &format!("c16-key:{}:{}", if at.is_empty() { "root" } else { "nested" }, if key.chars().count() == 1 && (key.chars().next().unwrap() as u32) < 32 { "synthetic".to_string() } else { "other".to_string() }),
                                &format!("find({:?}) was called on the {} although the rule never writes that key there (switches [{}])", key, if at.is_empty() { "user's document".to_string() } else { format!("nested object at {}", at) }, sw.name()),
                                mon::case(&text, doc, Some(*sw), json!({"allowed_top": top, "allowed_nested": nested}), json!({"asked": key, "at": at}), json!({})),
                            );
                            break;
                        }
                    }
                    // the same through an object that only implements get(): every single step of
                    // the provided path lookup, at every level, is a name the rule writes there
                    {
                        let glog: FindLog = Arc::new(Mutex::new(vec![]));
                        let gobj = to_getobj(doc, glog.clone());
                        rep.evaluations += 1;
                        if let Ok(v) = eng::matches(r, &gobj) {
                            if v != base {
                                rep.violation("representation", "c16-get-object", &format!("verdict {} through an object that implements only get(), {} through one with its own find() (switches [{}])", v, base, sw.name()), mon::case(&text, doc, Some(*sw), json!(base), json!(v), json!({})));
                            }
                        }
                        let events = glog.lock().unwrap().clone();
                        rep.add("get_events", events.len() as u64);
                        for (at, name) in &events {
                            if name == "<keys>" {
                                rep.count("keys_calls");
                                continue;
                            }
                            if !gets.get(at).map(|s| s.contains(name)).unwrap_or(false) {
                                rep.violation(
                                    "foreign-key",
                                    &format!("c16-get:{}", if at.is_empty() { "root" } else { "nested" }),
                                    &format!("get({:?}) was called on the {} although no key of the rule has that step there (switches [{}])", name, if at.is_empty() { "user's document".to_string() } else { format!("object at {}", at) }, sw.name()),
                                    mon::case(&text, doc, Some(*sw), json!({"allowed_steps": gets}), json!({"asked": name, "at": at}), json!({})),
                                );
                                break;
                            }
                        }
                    }
                    // metamorphic: unaddressed fields cannot change the verdict
                    let base = eng::matches(r, &to_yaml_map(doc)).unwrap_or(base);
                    // ... in particular a field whose name merely looks like an addressed one
                    // (another case, `-` for `_`, a blank at the end): the document in which an
                    // addressed field is *renamed* to a look-alike must behave like the document
                    // without that field
                    if let Some((removed, renamed)) = &renamed_pair {
                        rep.evaluations += 2;
                        let (a, b) = (eng::matches(r, &to_yaml_map(removed)), eng::matches(r, &to_yaml_map(renamed)));
                        if let (Ok(a), Ok(b)) = (a, b) {
                            if a != b {
                                rep.violation(
                                    "junk-sensitive",
                                    &format!("c16-lookalike:{}", sw.name()),
                                    &format!("verdict changes from {} to {} when a field with a look-alike name is added (switches [{}])", a, b, sw.name()),
                                    mon::case(&text, renamed, Some(*sw), json!(a), json!(b), json!({"without_junk": removed.to_json_text()})),
                                );
                            }
                        }
                    }
                    for (name, d2) in [("added", &with_junk), ("altered", &altered)] {
                        rep.evaluations += 1;
                        let m2 = to_yaml_map(d2);
                        match eng::matches(r, &m2) {
                            Ok(v) if v != base => {
                                rep.violation(
                                    "junk-sensitive",
                                    &format!("c16-junk:{}", sw.name()),
                                    &format!("verdict changes from {} to {} when unaddressed fields are {} (switches [{}])", base, v, name, sw.name()),
                                    mon::case(&text, d2, Some(*sw), json!(base), json!(v), json!({"without_junk": doc.to_json_text()})),
                                );
                            }
                            _ => {}
                        }
                    }
                }
            }
            if n == 0 && shard < 3 {
                rep.sample(json!({"rule": text, "allowed_top_level_keys": top, "allowed_nested_keys": nested, "switch_sets": 16}));
            }
        }
        rep
    });
    let mut rep = rep;
    crate::regress::replay_witnesses(ctx, &mut rep);
    for arm in ["SOLVE_MATRIX", "CACHE_FIND", "MATRIX_CACHE_FILL"] {
        if rep.arms.get(arm).cloned().unwrap_or(0) == 0 {
            rep.notes.push(format!("solver arm {} never reached by this run: no matrix was evaluated", arm));
        }
    }
    finish(
        ctx,
        rep,
        Meta {
            rule: "generated rules, half of them matrix-forming (sequences of mappings over a few shared fields, also under all()/of()), x all 16 switch sets x rule-aware documents rendered as a recording document whose every Object::find call (root and nested objects) is logged; the log is checked offline against the keys the rule writes (top level: identifier keys with the modifier stripped and cast arguments of the condition; nested objects: the keys written in the nested blocks at that object's location); the same through an object that implements only get(), so that every single step of the provided path lookup is logged and checked against the steps of the rule's keys; plus metamorphic runs with unaddressed fields added or altered, with an addressed field renamed to a look-alike name (other case, '-' for '_', trailing blank) against the document without it, including one-character control keys that collide with the matrix's synthetic keys. non-trivial = rule whose optimised form contains a matrix; distinct by (feature tags, number of matrices)".into(),
            exhaustive: false,
            assumptions: vec!["a nested object is identified by its path with array indices removed; blocks at the same location are pooled".into()],
            min_nontrivial: 30,
            extra: json!({}),
        },
    )
}
