//! C17 — the order of operands never decides whether an and/or is true (metamorphic monitor:
//! permute one commutative position of the rule text, compare).

use serde_json::json;

use crate::ast::*;
use crate::dval::{to_yaml_map, DVal};
use crate::eng;
use crate::gen::{self, GenCfg};
use crate::mon;
use crate::prng::Rng;
use crate::run::{finish, par_shards, Ctx, Meta, Report};

/// A commutative position: how to read its operands out of a rule and write a permutation back.
#[derive(Clone, Debug)]
pub enum Pos {
    /// identifier index: the mappings of a sequence identifier
    SeqItems(usize),
    /// (identifier index, item index or usize::MAX for a map identifier, path of nested keys):
    /// the entries of a mapping
    Entries(usize, usize, Vec<usize>),
    /// like Entries plus the index of the entry whose value is the list
    ListMembers(usize, usize, Vec<usize>, usize),
    /// a maximal same-operator chain in the condition, addressed by a path of child indices
    CondChain(Vec<u8>),
}

fn entries_of<'a>(r: &'a RuleAst, id: usize, item: usize, path: &[usize]) -> Option<&'a Entries> {
    let mut es: &Entries = match &r.idents[id].1 {
        Ident::Map(es) if item == usize::MAX => es,
        Ident::Seq(s) if item != usize::MAX => s.get(item)?,
        _ => return None,
    };
    for p in path {
        match &es.get(*p)?.1 {
            RVal::Map(inner) => es = inner,
            _ => return None,
        }
    }
    Some(es)
}

fn entries_mut<'a>(r: &'a mut RuleAst, id: usize, item: usize, path: &[usize]) -> Option<&'a mut Entries> {
    let mut es: &mut Entries = match &mut r.idents[id].1 {
        Ident::Map(es) if item == usize::MAX => es,
        Ident::Seq(s) if item != usize::MAX => s.get_mut(item)?,
        _ => return None,
    };
    for p in path {
        match &mut es.get_mut(*p)?.1 {
            RVal::Map(inner) => es = inner,
            _ => return None,
        }
    }
    Some(es)
}

fn collect_entries_positions(es: &Entries, id: usize, item: usize, path: &mut Vec<usize>, negated: bool, out: &mut Vec<(Pos, bool)>) {
    if es.len() >= 2 {
        out.push((Pos::Entries(id, item, path.clone()), negated));
    }
    for (i, (k, v)) in es.iter().enumerate() {
        let neg_here = negated || k.modi == KMod::Not || k.modi == KMod::Of(0);
        match v {
            RVal::List(ms) => {
                if ms.len() >= 2 {
                    out.push((Pos::ListMembers(id, item, path.clone(), i), neg_here));
                }
            }
            RVal::Map(inner) => {
                path.push(i);
                collect_entries_positions(inner, id, item, path, neg_here, out);
                path.pop();
            }
            _ => {}
        }
    }
}

/// is identifier `name` used under a negation / none-of quantifier anywhere in the condition?
fn negated_uses(c: &Cond, neg: bool, name: &str) -> bool {
    match c {
        Cond::Id(n) | Cond::All(n) => neg && n == name,
        Cond::Of(n, k) => (neg || *k == 0) && n == name,
        Cond::And(a, b) | Cond::Or(a, b) => negated_uses(a, neg, name) || negated_uses(b, neg, name),
        Cond::Not(a) => negated_uses(a, true, name),
        Cond::Paren(a) => negated_uses(a, neg, name),
        Cond::Cmp(..) => false,
    }
}

fn flatten<'a>(c: &'a Cond, and: bool, out: &mut Vec<&'a Cond>) {
    match (c, and) {
        (Cond::And(a, b), true) | (Cond::Or(a, b), false) => {
            flatten(a, and, out);
            flatten(b, and, out);
        }
        (Cond::Paren(a), _) if matches!((&**a, and), (Cond::And(..), true) | (Cond::Or(..), false)) => flatten(a, and, out),
        _ => out.push(c),
    }
}

fn cond_positions(c: &Cond, path: &mut Vec<u8>, neg: bool, parent_same: Option<bool>, out: &mut Vec<(Pos, bool)>) {
    match c {
        Cond::And(a, b) | Cond::Or(a, b) => {
            let and = matches!(c, Cond::And(..));
            if parent_same != Some(and) {
                out.push((Pos::CondChain(path.clone()), neg));
            }
            path.push(0);
            cond_positions(a, path, neg, Some(and), out);
            path.pop();
            path.push(1);
            cond_positions(b, path, neg, Some(and), out);
            path.pop();
        }
        Cond::Not(a) => {
            path.push(0);
            cond_positions(a, path, true, None, out);
            path.pop();
        }
        Cond::Paren(a) => {
            path.push(0);
            cond_positions(a, path, neg, parent_same, out);
            path.pop();
        }
        _ => {}
    }
}

/// every commutative position with its polarity (true = underneath a negation / none-of)
pub fn positions(r: &RuleAst) -> Vec<(Pos, bool)> {
    let mut out = vec![];
    for (i, (name, id)) in r.idents.iter().enumerate() {
        let neg = negated_uses(&r.cond, false, name);
        match id {
            Ident::Map(es) => collect_entries_positions(es, i, usize::MAX, &mut vec![], neg, &mut out),
            Ident::Seq(s) => {
                if s.len() >= 2 {
                    out.push((Pos::SeqItems(i), neg));
                }
                for (j, es) in s.iter().enumerate() {
                    collect_entries_positions(es, i, j, &mut vec![], neg, &mut out);
                }
            }
        }
    }
    cond_positions(&r.cond, &mut vec![], false, None, &mut out);
    out
}

fn cond_at<'a>(c: &'a Cond, path: &[u8]) -> &'a Cond {
    match (path.first(), c) {
        (None, _) => c,
        (Some(0), Cond::And(a, _)) | (Some(0), Cond::Or(a, _)) | (Some(0), Cond::Not(a)) | (Some(0), Cond::Paren(a)) => cond_at(a, &path[1..]),
        (Some(_), Cond::And(_, b)) | (Some(_), Cond::Or(_, b)) => cond_at(b, &path[1..]),
        _ => c,
    }
}

fn cond_replace(c: &Cond, path: &[u8], new: &Cond) -> Cond {
    match (path.first(), c) {
        (None, _) => new.clone(),
        (Some(0), Cond::And(a, b)) => Cond::and(cond_replace(a, &path[1..], new), (**b).clone()),
        (Some(_), Cond::And(a, b)) => Cond::and((**a).clone(), cond_replace(b, &path[1..], new)),
        (Some(0), Cond::Or(a, b)) => Cond::or(cond_replace(a, &path[1..], new), (**b).clone()),
        (Some(_), Cond::Or(a, b)) => Cond::or((**a).clone(), cond_replace(b, &path[1..], new)),
        (Some(_), Cond::Not(a)) => Cond::not(cond_replace(a, &path[1..], new)),
        (Some(_), Cond::Paren(a)) => Cond::Paren(Box::new(cond_replace(a, &path[1..], new))),
        _ => c.clone(),
    }
}

pub fn arity(r: &RuleAst, p: &Pos) -> usize {
    match p {
        Pos::SeqItems(i) => match &r.idents[*i].1 {
            Ident::Seq(s) => s.len(),
            _ => 0,
        },
        Pos::Entries(i, j, path) => entries_of(r, *i, *j, path).map(|e| e.len()).unwrap_or(0),
        Pos::ListMembers(i, j, path, e) => entries_of(r, *i, *j, path).and_then(|es| es.get(*e)).map(|(_, v)| if let RVal::List(l) = v { l.len() } else { 0 }).unwrap_or(0),
        Pos::CondChain(path) => {
            let c = cond_at(&r.cond, path);
            let mut v = vec![];
            flatten(c, matches!(c, Cond::And(..)), &mut v);
            v.len()
        }
    }
}

fn permuted<T: Clone>(xs: &[T], perm: &[usize]) -> Vec<T> {
    perm.iter().map(|i| xs[*i].clone()).collect()
}

/// the rule with the operands of `p` in the order `perm`
pub fn apply(r: &RuleAst, p: &Pos, perm: &[usize]) -> RuleAst {
    let mut n = r.clone();
    match p {
        Pos::SeqItems(i) => {
            if let Ident::Seq(s) = &mut n.idents[*i].1 {
                *s = permuted(s, perm);
            }
        }
        Pos::Entries(i, j, path) => {
            if let Some(es) = entries_mut(&mut n, *i, *j, path) {
                *es = permuted(es, perm);
            }
        }
        Pos::ListMembers(i, j, path, e) => {
            if let Some(es) = entries_mut(&mut n, *i, *j, path) {
                if let RVal::List(l) = &mut es[*e].1 {
                    *l = permuted(l, perm);
                }
            }
        }
        Pos::CondChain(path) => {
            let c = cond_at(&r.cond, path);
            let and = matches!(c, Cond::And(..));
            let mut ops = vec![];
            flatten(c, and, &mut ops);
            let ops: Vec<Cond> = permuted(&ops.into_iter().cloned().collect::<Vec<_>>(), perm);
            let mut it = ops.into_iter();
            let mut acc = it.next().unwrap();
            for x in it {
                acc = if and { Cond::and(acc, x) } else { Cond::or(acc, x) };
            }
            n.cond = cond_replace(&r.cond, path, &acc);
        }
    }
    n
}

/// the permuted part as the whole condition of a probe rule (truth of that and/or itself)
pub fn probe(r: &RuleAst, p: &Pos) -> RuleAst {
    let mut n = r.clone();
    match p {
        Pos::SeqItems(i) => n.cond = Cond::Id(r.idents[*i].0.clone()),
        Pos::Entries(i, j, path) => {
            let es = entries_of(r, *i, *j, path).cloned().unwrap_or_default();
            n.idents.push(("PROBE".into(), Ident::Map(es)));
            n.cond = Cond::id("PROBE");
        }
        Pos::ListMembers(i, j, path, e) => {
            let (k, v) = entries_of(r, *i, *j, path).and_then(|es| es.get(*e)).cloned().unwrap();
            let k = Key { field: k.field, modi: if k.modi == KMod::Not { KMod::None } else { k.modi } };
            n.idents.push(("PROBE".into(), Ident::Map(vec![(k, v)])));
            n.cond = Cond::id("PROBE");
        }
        Pos::CondChain(path) => n.cond = cond_at(&r.cond, path).clone(),
    }
    n
}

pub fn all_perms(n: usize) -> Vec<Vec<usize>> {
    fn rec(cur: &mut Vec<usize>, used: &mut Vec<bool>, n: usize, out: &mut Vec<Vec<usize>>) {
        if cur.len() == n {
            out.push(cur.clone());
            return;
        }
        for i in 0..n {
            if !used[i] {
                used[i] = true;
                cur.push(i);
                rec(cur, used, n, out);
                cur.pop();
                used[i] = false;
            }
        }
    }
    let mut out = vec![];
    rec(&mut vec![], &mut vec![false; n], n, &mut out);
    out
}

/// verdicts of the rule optimised with every switch on
fn verdicts_optimised(r: &RuleAst, maps: &[serde_yaml::Mapping]) -> Option<Vec<bool>> {
    let t = r.to_text()?;
    let rule = eng::load_ok(&t)?;
    let o = eng::optimise(&rule, eng::Sw(15)).ok()?;
    maps.iter().map(|m| eng::matches(&o, m).ok()).collect()
}

/// optimisation is verdict-preserving for this rule as far as C01's open findings go
fn clean_for_optimisation(r: &RuleAst) -> bool {
    crate::c01::triggers(r).is_empty() && !gen::tags(r).iter().any(|t| t.starts_with("cond-all") || t.starts_with("cond-of"))
}

fn verdicts(r: &RuleAst, maps: &[serde_yaml::Mapping]) -> Option<Vec<bool>> {
    let t = r.to_text()?;
    let rule = eng::load_ok(&t)?;
    maps.iter().map(|m| eng::matches(&rule, m).ok()).collect()
}

pub fn run(ctx: &Ctx) -> i32 {
    let shards = ctx.size(64, 512);
    let per = ctx.size(120, 1500);
    let rep = par_shards(ctx, shards, |shard| {
        let mut rep = Report::new();
        let mut rng = Rng::new(ctx.seed, "C17", shard as u64);
        let cfg = GenCfg { max_list: 4, max_entries: 4, wide_lists: false, ..Default::default() };
        for n in 0..per {
            if ctx.expired() {
                rep.truncated = true;
                break;
            }
            let ast = gen::gen_rule(&mut rng, &cfg);
            let ps = positions(&ast);
            if ps.is_empty() {
                rep.count("rules_without_commutative_position");
                continue;
            }
            let leaves = gen::collect_leaves(&ast);
            let docs: Vec<DVal> = (0..ctx.size(8, 12)).map(|_| gen::gen_doc(&mut rng, &leaves)).collect();
            let maps: Vec<serde_yaml::Mapping> = docs.iter().map(to_yaml_map).collect();
            let Some(full0) = verdicts(&ast, &maps) else {
                rep.count("rule_rejected");
                continue;
            };
            rep.count("rules");
            for (p, negated) in &ps {
                let k = arity(&ast, p);
                if k < 2 {
                    continue;
                }
                let perms = if k <= 4 {
                    all_perms(k)
                } else {
                    (0..24)
                        .map(|_| {
                            let mut v: Vec<usize> = (0..k).collect();
                            rng.shuffle(&mut v);
                            v
                        })
                        .collect()
                };
                let pr0 = probe(&ast, p);
                let Some(probe0) = verdicts(&pr0, &maps) else {
                    rep.count("probe_rejected");
                    continue;
                };
                let kind = match p {
                    Pos::SeqItems(_) => "sequence-of-mappings",
                    Pos::Entries(..) => "mapping-entries",
                    Pos::ListMembers(..) => "list-members",
                    Pos::CondChain(_) => "condition-chain",
                };
                rep.count(&format!("positions.{}", kind));
                if probe0.iter().any(|b| *b) && probe0.iter().any(|b| !*b) {
                    rep.nontrivial_key(&format!("{}|{}|{}", kind, k, gen::tag_key(&gen::tags(&pr0))));
                }
                // a spread of the orders is also evaluated in optimised form (probe rules of the
                // clean stratum only: there optimisation preserves verdicts)
                let opt_idx: Vec<usize> = if clean_for_optimisation(&pr0) { vec![1, perms.len() - 1, perms.len() / 2, perms.len() / 3] } else { vec![] };
                for (pi, perm) in perms.iter().enumerate().skip(1) {
                    let pa = apply(&ast, p, perm);
                    let pp = probe(&pa, p);
                    if opt_idx.contains(&pi) {
                        rep.evaluations += maps.len() as u64;
                        rep.count("optimised_orders");
                        if let Some(v) = verdicts_optimised(&pp, &maps) {
                            if let Some(i) = (0..v.len()).find(|i| v[*i] != probe0[*i]) {
                                rep.violation(
                                    "truth-differs-optimised",
                                    &format!("c17-truth-opt:{}:{}", kind, gen::tag_key(&gen::tags(&pr0))),
                                    &format!("reordering the operands of a {} ({:?}) changes whether the optimised rule is true: {} -> {} on {}", kind, perm, probe0[i], v[i], docs[i].to_json_text()),
                                    mon::case(&pp.to_text().unwrap_or_default(), &docs[i], Some(eng::Sw(15)), json!(probe0[i]), json!(v[i]), json!({"original_order_rule": pr0.to_text(), "permutation": perm})),
                                );
                                break;
                            }
                        }
                    }
                    rep.evaluations += maps.len() as u64;
                    match verdicts(&pp, &maps) {
                        None => {
                            rep.violation("load-differs", &format!("c17-load:{}", kind), &format!("a permutation of a {} makes the rule unloadable", kind), json!({"rule": pp.to_text(), "original": pr0.to_text()}));
                            break;
                        }
                        Some(v) => {
                            if let Some(i) = (0..v.len()).find(|i| v[*i] != probe0[*i]) {
                                rep.violation(
                                    "truth-differs",
                                    &format!("c17-truth:{}:{}", kind, gen::tag_key(&gen::tags(&pr0))),
                                    &format!("reordering the operands of a {} ({:?}) changes whether it is true: {} -> {} on {}", kind, perm, probe0[i], v[i], docs[i].to_json_text()),
                                    mon::case(&pp.to_text().unwrap_or_default(), &docs[i], None, json!(probe0[i]), json!(v[i]), json!({"original_order_rule": pr0.to_text(), "permutation": perm})),
                                );
                                break;
                            }
                        }
                    }
                    if !negated {
                        rep.evaluations += maps.len() as u64;
                        if let Some(v) = verdicts(&pa, &maps) {
                            if let Some(i) = (0..v.len()).find(|i| v[*i] != full0[*i]) {
                                rep.violation(
                                    "verdict-differs",
                                    &format!("c17-verdict:{}:{}", kind, gen::tag_key(&gen::tags(&ast))),
                                    &format!("reordering a {} that is not under a negation changes the rule's verdict: {} -> {} on {}", kind, full0[i], v[i], docs[i].to_json_text()),
                                    mon::case(&pa.to_text().unwrap_or_default(), &docs[i], None, json!(full0[i]), json!(v[i]), json!({"original_order_rule": ast.to_text(), "permutation": perm})),
                                );
                                break;
                            }
                        }
                    }
                }
            }
            if n == 0 && shard < 3 {
                rep.sample(json!({"rule": ast.to_text(), "commutative_positions": ps.len(), "documents": docs.len()}));
            }
        }
        rep
    });
    let mut rep = rep;
    // several identifiers holding nested blocks over ONE field, joined by `and` (or `or`), against
    // arrays of objects in which the satisfying entries are scattered over the elements in every
    // order: the truth of the chain does not depend on the order in which the blocks are written,
    // unoptimised and in three optimised forms (the optimiser merges such blocks)
    {
        let extra = par_shards(ctx, 16, |shard| {
            use crate::ast::*;
            let mut rep = Report::new();
            let mut rng = Rng::new(ctx.seed, "C17-blocks", shard as u64);
            let keys = ["a", "b", "x", "y"];
            let vals = ["foo", "bar", "baz", "qux"];
            for _ in 0..ctx.size(40, 400) {
                let nb = 2 + rng.below(3);
                let and = rng.chance(75);
                let blocks: Vec<Entries> = (0..nb)
                    .map(|i| {
                        let mut es: Entries = vec![(Key::plain(keys[i]), RVal::Str(vals[i].into()))];
                        if rng.chance(30) {
                            let j = (i + 1 + rng.below(3)) % 4;
                            es.push((Key::plain(keys[j]), RVal::Str(format!("{}*", &vals[j][..2]))));
                        }
                        es
                    })
                    .collect();
                let build = |order: &[usize]| -> RuleAst {
                    let idents: Vec<(String, Ident)> = order.iter().enumerate().map(|(pos, &b)| (format!("I{}", pos), Ident::Map(vec![(Key::plain("n"), RVal::Map(blocks[b].clone()))]))).collect();
                    let mut cond = Cond::id("I0");
                    for i in 1..order.len() {
                        cond = if and { Cond::and(cond, Cond::id(&format!("I{}", i))) } else { Cond::or(cond, Cond::id(&format!("I{}", i))) };
                    }
                    RuleAst { idents, cond, tp: vec![], tn: vec![] }
                };
                let len = 1 + rng.below(4);
                let docs: Vec<DVal> = (0..10)
                    .map(|_| {
                        let mut elems: Vec<Vec<(String, DVal)>> = (0..len).map(|_| vec![]).collect();
                        for i in 0..4 {
                            if rng.chance(80) {
                                let at = rng.below(len);
                                let v = if rng.chance(85) { vals[i] } else { "nope" };
                                if !elems[at].iter().any(|(k, _)| k == keys[i]) {
                                    elems[at].push((keys[i].to_string(), DVal::s(v)));
                                }
                            }
                        }
                        let mut arr: Vec<DVal> = elems.into_iter().map(DVal::Obj).collect();
                        if rng.chance(20) {
                            arr.insert(rng.below(arr.len() + 1), DVal::s("junk"));
                        }
                        DVal::Obj(vec![("n".into(), if len == 1 && rng.chance(50) { arr.remove(0) } else { DVal::Arr(arr) })])
                    })
                    .collect();
                let maps: Vec<serde_yaml::Mapping> = docs.iter().map(to_yaml_map).collect();
                let perms = all_perms(nb);
                let mut first: Option<Vec<Vec<bool>>> = None;
                for perm in &perms {
                    let ast = build(perm);
                    let Some(text) = ast.to_text() else { continue };
                    let Some(rule) = eng::load_ok(&text) else { continue };
                    let mut rows: Vec<Vec<bool>> = vec![];
                    for sw in [eng::Sw(0), eng::Sw(15), eng::Sw(3), eng::Sw(2)] {
                        let r = if sw.0 == 0 { rule.clone() } else { eng::optimise(&rule, sw).unwrap_or(rule.clone()) };
                        rows.push(maps.iter().map(|m| eng::matches(&r, m).unwrap_or(false)).collect());
                        rep.evaluations += maps.len() as u64;
                    }
                    rep.count("block_chain_orders");
                    match &first {
                        None => first = Some(rows),
                        Some(f) => {
                            if let Some((si, di)) = (0..rows.len()).flat_map(|si| (0..maps.len()).map(move |di| (si, di))).find(|(si, di)| rows[*si][*di] != f[*si][*di]) {
                                let swn = ["unoptimised", "all switches", "coalesce+shake", "shake"][si];
                                rep.violation(
                                    "order",
                                    &format!("c17-blocks:{}", swn),
                                    &format!("reordering the {}-chain of identifiers with nested blocks over one field ({:?}) changes the verdict ({}) from {} to {} on {}", if and { "and" } else { "or" }, perm, swn, f[si][di], rows[si][di], docs[di].to_json_text()),
                                    mon::case(&text, &docs[di], None, json!(f[si][di]), json!(rows[si][di]), json!({"order": perm, "form": swn, "first_order_rule": build(&perms[0]).to_text()})),
                                );
                                break;
                            }
                        }
                    }
                }
                if let Some(f) = &first {
                    if f[0].iter().any(|x| *x) && f[0].iter().any(|x| !*x) {
                        rep.nontrivial_key(&format!("blocks|{}|{}|{}", nb, and, len));
                    }
                }
            }
            rep
        });
        rep.merge(extra);
    }
    crate::regress::replay_witnesses(ctx, &mut rep);
    finish(
        ctx,
        rep,
        Meta {
            rule: "generated rules; for every commutative position (members of a list, mappings of a sequence, entries of a mapping incl. nested ones, maximal and/or chains of the condition) all permutations for <= 4 operands (24 sampled beyond) x rule-aware documents; (1) the permuted part, as the whole condition of a probe rule, must be true for the same documents in every order; (2) the full rule's verdict must not change when the position is not underneath a negation or none-of quantifier; (3) for probe rules in C01's clean stratum a spread of the orders is also evaluated fully optimised and must be true for the same documents; (4) and/or chains of identifiers that hold nested blocks over one field, every order x arrays of objects with the satisfying entries scattered over the elements, unoptimised and three optimised forms. non-trivial = position whose truth differs across the documents; distinct by (position kind, arity, feature tags of the part)".into(),
            exhaustive: false,
            assumptions: vec!["under negation only the truth of the permuted part is compared (first-non-true 'and' legitimately yields false or missing depending on order)".into()],
            min_nontrivial: 100,
            extra: json!({}),
        },
    )
}
