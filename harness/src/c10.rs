//! C10 — field paths resolve to exactly the addressed value.

use std::collections::HashMap;

use serde_json::json;
use tau_engine::{Document, Object};

use crate::ast::*;
use crate::dval::{self, parse_path, same, to_json, to_yaml_map, walk, DVal, Seg};
use crate::eng;
use crate::mon;
use crate::prng::Rng;
use crate::refi::{self, ts_name, Ref};
use crate::reps::{from_value, to_myobj, to_std_doc, StdVal};
use crate::run::{finish, par_shards, Ctx, Meta, Report};

/// all well-formed paths up to `depth` segments over names {a,b} and index in {none,0,1,2}
pub fn paths(depth: usize) -> Vec<Vec<Seg>> {
    let mut segs = vec![];
    for n in ["a", "b"] {
        for i in [None, Some(0usize), Some(1), Some(2)] {
            segs.push(Seg { name: n.to_string(), index: i });
        }
    }
    let mut out: Vec<Vec<Seg>> = vec![];
    let mut last: Vec<Vec<Seg>> = vec![vec![]];
    for _ in 0..depth {
        let mut next = vec![];
        for p in &last {
            for s in &segs {
                let mut q = p.clone();
                q.push(s.clone());
                next.push(q);
            }
        }
        out.extend(next.iter().cloned());
        last = next;
    }
    out
}

pub fn path_text(p: &[Seg]) -> String {
    p.iter()
        .map(|s| match s.index {
            Some(i) => format!("{}[{}]", s.name, i),
            None => s.name.clone(),
        })
        .collect::<Vec<_>>()
        .join(".")
}

/// shape family of depth d (leaves are placeholders, labelled uniquely afterwards)
fn shapes(d: usize) -> Vec<DVal> {
    let base = vec![DVal::s("?"), DVal::UInt(0)];
    if d == 0 {
        return base;
    }
    let inner = shapes(d - 1);
    let small: Vec<DVal> = {
        let mut s = vec![inner[0].clone(), inner[1].clone()];
        if let Some(o) = inner.iter().find(|x| matches!(x, DVal::Obj(e) if !e.is_empty())) {
            s.push(o.clone());
        }
        s
    };
    let mut out = base;
    out.push(DVal::Null);
    out.push(DVal::Obj(vec![]));
    out.push(DVal::Arr(vec![]));
    for x in &inner {
        out.push(DVal::obj(vec![("a", x.clone())]));
        out.push(DVal::Arr(vec![x.clone()]));
    }
    for x in &small {
        for y in &small {
            out.push(DVal::obj(vec![("a", x.clone()), ("b", y.clone())]));
            out.push(DVal::Arr(vec![x.clone(), y.clone()]));
        }
    }
    out
}

fn label(v: &mut DVal, n: &mut u64) {
    match v {
        DVal::Str(s) => {
            *n += 1;
            *s = format!("s{}", n);
        }
        DVal::UInt(u) => {
            *n += 1;
            *u = 1000 + *n;
        }
        DVal::Arr(a) => a.iter_mut().for_each(|x| label(x, n)),
        DVal::Obj(o) => o.iter_mut().for_each(|(_, x)| label(x, n)),
        _ => {}
    }
}

pub fn documents(depth: usize) -> Vec<DVal> {
    let big = shapes(depth);
    let small = shapes(1);
    let mut out = vec![];
    // literal root keys that merely look like paths: a path never addresses them
    for (k, x) in [("a.b", big[7].clone()), ("a[0]", big[3].clone()), ("a.a", big[0].clone()), ("b[1].a", big[1].clone()), ("a.b.a", big[0].clone())] {
        for base in [DVal::obj(vec![]), DVal::obj(vec![("a", big[9].clone())]), DVal::obj(vec![("a", DVal::Arr(vec![big[0].clone()])), ("b", big[1].clone())])] {
            let mut d = base;
            d.set(k, x.clone());
            let mut n = 0;
            label(&mut d, &mut n);
            out.push(d);
        }
    }
    for x in &big {
        for (j, y) in small.iter().enumerate() {
            if j % 3 != 0 && out.len() % 2 == 0 {
                // keep the family small: every x with a few y
            }
            let mut d = DVal::obj(vec![("a", x.clone()), ("b", y.clone())]);
            let mut n = 0;
            label(&mut d, &mut n);
            out.push(d);
            if j >= 3 {
                break;
            }
        }
    }
    out
}

struct JsonDoc(serde_json::Value);

fn contains_value(doc: &DVal, v: &DVal) -> bool {
    if same(doc, v) {
        return true;
    }
    match doc {
        DVal::Arr(a) => a.iter().any(|x| contains_value(x, v)),
        DVal::Obj(o) => o.iter().any(|(_, x)| contains_value(x, v)),
        _ => false,
    }
}

fn nested_rule(path: &[Seg], leaf: RVal) -> RuleAst {
    // a.b[1].c: v  ==>  a: { b[1]: { c: v } }
    let mut val = leaf;
    for (i, s) in path.iter().enumerate().rev() {
        let k = match s.index {
            Some(ix) => format!("{}[{}]", s.name, ix),
            None => s.name.clone(),
        };
        if i == 0 {
            return RuleAst { idents: vec![("A".into(), Ident::Map(vec![(Key::plain(&k), val)]))], cond: Cond::id("A"), tp: vec![], tn: vec![] };
        }
        val = RVal::Map(vec![(Key::plain(&k), val)]);
    }
    unreachable!()
}

fn dotted_rule(path: &[Seg], leaf: RVal, m: KMod) -> RuleAst {
    RuleAst { idents: vec![("A".into(), Ident::Map(vec![(Key::with(&path_text(path), m), leaf)]))], cond: Cond::id("A"), tp: vec![], tn: vec![] }
}

pub fn run(ctx: &Ctx) -> i32 {
    let all_paths = paths(4);
    let docs = documents(ctx.size(3, 3));
    let rf = Ref::default();
    let shards = ctx.size(32, 64);
    let rep = par_shards(ctx, shards, |shard| {
        let mut rep = Report::new();
        let mut rng = Rng::new(ctx.seed, "C10", shard as u64);
        for (di, doc) in docs.iter().enumerate() {
            if di % shards != shard {
                continue;
            }
            if ctx.expired() {
                rep.truncated = true;
                break;
            }
            let ymap = to_yaml_map(doc);
            let jval = JsonDoc(to_json(doc));
            let jmap = match &jval.0 {
                serde_json::Value::Object(m) => m.clone(),
                _ => serde_json::Map::new(),
            };
            let smap: HashMap<String, StdVal> = to_std_doc(doc, di as u64, false);
            let mobj = to_myobj(doc);
            for p in &all_paths {
                let key = path_text(p);
                let want = walk(doc, p);
                let finds: [(&str, Option<DVal>); 5] = [
                    ("yaml-mapping Object::find", Object::find(&ymap, &key).map(|v| from_value(&v))),
                    ("json-map Object::find", Object::find(&jmap, &key).map(|v| from_value(&v))),
                    ("json-value Document::find", Document::find(&jval.0, &key).map(|v| from_value(&v))),
                    ("HashMap Object::find", Object::find(&smap, &key).map(|v| from_value(&v))),
                    ("custom Object default find", Object::find(&mobj, &key).map(|v| from_value(&v))),
                ];
                for (name, got) in finds.iter() {
                    rep.evaluations += 1;
                    let ok = match (want, got) {
                        (None, None) => true,
                        (Some(w), Some(g)) => same(w, g),
                        _ => false,
                    };
                    if !ok {
                        rep.violation(
                            "find",
                            &format!("c10-find:{}:{}", name, if want.is_some() { "wrong-or-missing" } else { "fabricated" }),
                            &format!("{}({:?}) on {} returned {} , the path addresses {}", name, key, doc.to_json_text(), got.as_ref().map(|g| g.to_json_text()).unwrap_or("None".into()), want.map(|w| w.to_json_text()).unwrap_or("nothing".into())),
                            json!({"doc": doc.to_json_text(), "key": key, "expected": want.map(|w| w.to_json_text()), "observed": got.as_ref().map(|g| g.to_json_text())}),
                        );
                    }
                }
                // non-trivial: fails at its last or second-to-last step, or succeeds at depth >= 2
                let fail_pos = (1..=p.len()).find(|n| walk(doc, &p[..*n]).is_none());
                let nontrivial = match fail_pos {
                    None => p.len() >= 2,
                    Some(n) => n + 1 >= p.len() && p.len() >= 2,
                };
                if nontrivial {
                    rep.nontrivial_key(&format!("{}|{}", key, doc.to_json_text()));
                }
                // rule level (sampled in quick: one path in 8 per document, all paths of depth <= 2)
                if p.len() > 2 && !(ctx.quick() && rng.chance(12) || !ctx.quick() && rng.chance(50)) {
                    continue;
                }
                let leaf = match want {
                    Some(DVal::Str(s)) => RVal::Str(s.clone()),
                    Some(DVal::UInt(u)) => RVal::Int(*u as i64),
                    Some(DVal::Null) => RVal::Null,
                    _ => RVal::Str("s1".into()),
                };
                for (form, ast) in [
                    ("dotted", dotted_rule(p, leaf.clone(), KMod::None)),
                    ("dotted-any", dotted_rule(p, RVal::Str("*".into()), KMod::None)),
                    ("not(dotted)", dotted_rule(p, leaf.clone(), KMod::Not)),
                    ("nested", nested_rule(p, leaf.clone())),
                ] {
                    let Some(text) = ast.to_text() else { continue };
                    let Some(rule) = eng::load_ok(&text) else {
                        rep.violation("load-failed", &format!("c10-load:{}", form), &format!("path rule does not load: {}", key), json!({"rule": text}));
                        continue;
                    };
                    let exp = rf.eval_rule(&ast, doc);
                    rep.evaluations += 1;
                    // the optimised rule addresses the same value (positive forms only: beneath a
                    // negation false-vs-missing is C01's open subject)
                    if form != "not(dotted)" {
                        if let Some(want) = refi::verdict(exp) {
                            for sw in [eng::Sw(15), eng::Sw(2), eng::Sw(10)] {
                                rep.evaluations += 1;
                                if let Ok(o) = eng::optimise(&rule, sw) {
                                    if eng::matches(&o, &ymap).unwrap_or(want) != want {
                                        rep.violation("rule", &format!("c10-rule-opt:{}", form), &format!("{} rule for path {:?} on {}: optimised [{}] verdict is {} , the path semantics give {}", form, key, doc.to_json_text(), sw.name(), !want, want), mon::case(&text, doc, Some(sw), json!(want), json!(!want), json!({"form": form})));
                                        break;
                                    }
                                }
                            }
                        }
                    }
                    match eng::solve3(&rule, &ymap) {
                        Ok(g) => {
                            if refi::from_code(g) & exp == 0 {
                                rep.violation(
                                    "rule",
                                    &format!("c10-rule:{}", form),
                                    &format!("{} rule for path {:?} on {}: engine {} , reference {}", form, key, doc.to_json_text(), ts_name(refi::from_code(g)), ts_name(exp)),
                                    mon::case(&text, doc, None, json!(refi::verdict(exp)), json!(g == 1), json!({"form": form})),
                                );
                            }
                        }
                        Err(pn) => rep.violation("panic", &format!("panic:{}", pn.sig()), &format!("path rule panicked: {}", pn.sig()), mon::case(&text, doc, None, json!("no-panic"), json!(pn.sig()), json!({}))),
                    }
                }
                // dotted vs nested spelling when every intermediate is an object
                let all_objects = p.iter().all(|s| s.index.is_none()) && (1..p.len()).all(|n| matches!(walk(doc, &p[..n]), Some(DVal::Obj(_))));
                if all_objects && p.len() >= 2 {
                    let a = dotted_rule(p, leaf.clone(), KMod::None).to_text().and_then(|t| eng::load_ok(&t));
                    let b = nested_rule(p, leaf.clone()).to_text().and_then(|t| eng::load_ok(&t));
                    if let (Some(a), Some(b)) = (a, b) {
                        rep.count("dotted_vs_nested");
                        let (va, vb) = (eng::matches(&a, &ymap).unwrap_or(false), eng::matches(&b, &ymap).unwrap_or(true));
                        if va != vb {
                            rep.violation("spelling", "c10-spelling", &format!("dotted key {:?} gives {} but the nested-mapping spelling gives {} on {}", key, va, vb, doc.to_json_text()), json!({"doc": doc.to_json_text(), "key": key}));
                        }
                    }
                }
            }
            if rep.samples.is_empty() {
                rep.sample(json!({"doc": doc.to_json_text(), "paths_tried": all_paths.len(), "example_path": path_text(&all_paths[77]), "addresses": walk(doc, &all_paths[77]).map(|v| v.to_json_text())}));
            }
        }
        // nested mapping over arrays: "some element satisfies it" - every array of up to 3
        // elements over a family of elements that have / lack / mismatch the tested keys
        if shard == 0 {
            let elems: Vec<DVal> = vec![
                DVal::s("x"),
                DVal::Obj(vec![]),
                DVal::obj(vec![("b", DVal::s("v"))]),
                DVal::obj(vec![("b", DVal::s("w"))]),
                DVal::obj(vec![("c", DVal::s("w"))]),
                DVal::obj(vec![("b", DVal::s("v")), ("c", DVal::s("w"))]),
                DVal::obj(vec![("b", DVal::s("v")), ("c", DVal::s("x"))]),
                DVal::obj(vec![("b", DVal::Arr(vec![DVal::s("v")]))]),
                DVal::obj(vec![("b", DVal::s("vw"))]),
            ];
            let mut arrays: Vec<Vec<DVal>> = vec![vec![]];
            for a in &elems {
                arrays.push(vec![a.clone()]);
                for b in &elems {
                    arrays.push(vec![a.clone(), b.clone()]);
                    for c in &elems {
                        arrays.push(vec![a.clone(), b.clone(), c.clone()]);
                    }
                }
            }
            let rules: Vec<(&str, Entries)> = vec![
                ("one key", vec![(Key::plain("b"), RVal::Str("v".into()))]),
                ("two keys", vec![(Key::plain("b"), RVal::Str("v".into())), (Key::plain("c"), RVal::Str("w".into()))]),
                ("negated key", vec![(Key::with("b", KMod::Not), RVal::Str("v".into()))]),
                ("list", vec![(Key::plain("b"), RVal::List(vec![RVal::Str("v".into()), RVal::Str("z".into())]))]),
                // a quantifier written inside the block must hold within one element
                ("all() in block", vec![(Key::with("b", KMod::All), RVal::List(vec![RVal::Str("*v*".into()), RVal::Str("i*W*".into())]))]),
                ("of(2) in block", vec![(Key::with("b", KMod::Of(2)), RVal::List(vec![RVal::Str("*v*".into()), RVal::Str("?w".into()), RVal::Str("*x*".into())]))]),
                ("of(0) in block", vec![(Key::with("b", KMod::Of(0)), RVal::List(vec![RVal::Str("*v*".into()), RVal::Str("i*W*".into())]))]),
            ];
            for (rname, inner) in &rules {
                for negate in [false, true] {
                    let mut ast = RuleAst { idents: vec![("A".into(), Ident::Map(vec![(Key::plain("a"), RVal::Map(inner.clone()))]))], cond: Cond::id("A"), tp: vec![], tn: vec![] };
                    if negate {
                        ast.cond = Cond::not(Cond::id("A"));
                    }
                    let Some(text) = ast.to_text() else { continue };
                    let Some(rule) = eng::load_ok(&text) else { continue };
                    let opt = eng::optimise(&rule, eng::Sw(15)).ok();
                    for arr in &arrays {
                        let doc = DVal::obj(vec![("a", DVal::Arr(arr.clone()))]);
                        let m = to_yaml_map(&doc);
                        let exp = rf.eval_rule(&ast, &doc);
                        rep.evaluations += 1;
                        rep.count("nested_over_array_cells");
                        rep.nontrivial_key(&format!("N|{}|{}|{}", rname, negate, doc.to_json_text()));
                        let g = eng::solve3(&rule, &m).unwrap_or(9);
                        if g > 2 || refi::from_code(g) & exp == 0 {
                            rep.violation("nested-array", &format!("c10-nested-array:{}", rname), &format!("nested mapping ({}{}) over {}: engine {} , 'some element satisfies it' gives {}", rname, if negate { ", negated" } else { "" }, doc.to_json_text(), g, ts_name(exp)), mon::case(&text, &doc, None, json!(refi::verdict(exp)), json!(g == 1), json!({})));
                        }
                        if let (Some(o), Some(want)) = (&opt, refi::verdict(exp)) {
                            if !negate {
                                rep.evaluations += 1;
                                if eng::matches(o, &m).unwrap_or(!want) != want {
                                    rep.violation("nested-array", &format!("c10-nested-array-opt:{}", rname), &format!("optimised nested mapping ({}) over {} differs", rname, doc.to_json_text()), mon::case(&text, &doc, Some(eng::Sw(15)), json!(want), json!(!want), json!({})));
                                }
                            }
                        }
                    }
                }
            }
        }
        // several identifiers with blocks over the same field, joined by `and`: each block must
        // be satisfied by some element ON ITS OWN (its keys within one element), also after the
        // optimiser has merged the blocks
        if shard == 1 {
            let b = |k: &str, v: &str| (Key::plain(k), RVal::Str(v.into()));
            let families: Vec<(&str, Vec<Entries>)> = vec![
                ("two-key block + two one-key blocks", vec![vec![b("b", "v"), b("c", "w")], vec![b("b", "v")], vec![b("c", "w")]]),
                ("two two-key blocks + one-key block", vec![vec![b("b", "v"), b("c", "w")], vec![b("b", "v"), b("c", "x")], vec![b("b", "v*")]]),
                ("three one-key blocks", vec![vec![b("b", "v")], vec![b("c", "w")], vec![b("b", "vw")]]),
                ("block + negated-key block + block", vec![vec![b("b", "v"), b("c", "w")], vec![(Key::with("b", KMod::Not), RVal::Str("w".into()))], vec![b("c", "w")]]),
            ];
            let elems: Vec<DVal> = vec![
                DVal::Obj(vec![]),
                DVal::obj(vec![("b", DVal::s("v"))]),
                DVal::obj(vec![("c", DVal::s("w"))]),
                DVal::obj(vec![("b", DVal::s("v")), ("c", DVal::s("w"))]),
                DVal::obj(vec![("b", DVal::s("v")), ("c", DVal::s("x"))]),
                DVal::obj(vec![("b", DVal::s("w")), ("c", DVal::s("w"))]),
                DVal::obj(vec![("b", DVal::s("vw"))]),
            ];
            let mut arrays: Vec<DVal> = elems.clone();
            for a in &elems {
                arrays.push(DVal::Arr(vec![a.clone()]));
                for b2 in &elems {
                    arrays.push(DVal::Arr(vec![a.clone(), b2.clone()]));
                    for c in &elems {
                        arrays.push(DVal::Arr(vec![a.clone(), b2.clone(), c.clone()]));
                    }
                }
            }
            for (fname, blocks) in &families {
                let idents: Vec<(String, Ident)> = blocks.iter().enumerate().map(|(i, es)| (format!("I{}", i), Ident::Map(vec![(Key::plain("a"), RVal::Map(es.clone()))]))).collect();
                let mut cond = Cond::id("I0");
                for i in 1..idents.len() {
                    cond = Cond::and(cond, Cond::id(&format!("I{}", i)));
                }
                let ast = RuleAst { idents, cond, tp: vec![], tn: vec![] };
                let Some(text) = ast.to_text() else { continue };
                let Some(rule) = eng::load_ok(&text) else { continue };
                let opts: Vec<(eng::Sw, tau_engine::Rule)> = [eng::Sw(15), eng::Sw(3), eng::Sw(2)].iter().filter_map(|s| eng::optimise(&rule, *s).ok().map(|r| (*s, r))).collect();
                for av in &arrays {
                    let doc = DVal::obj(vec![("a", av.clone())]);
                    let m = to_yaml_map(&doc);
                    let exp = rf.eval_rule(&ast, &doc);
                    rep.evaluations += 1;
                    rep.count("merged_block_cells");
                    rep.nontrivial_key(&format!("MB|{}|{}", fname, doc.to_json_text()));
                    let g = eng::solve3(&rule, &m).unwrap_or(9);
                    if g > 2 || refi::from_code(g) & exp == 0 {
                        rep.violation("nested-array", &format!("c10-merged-blocks:{}", fname), &format!("blocks over one field ({}) over {}: engine {} , 'some element satisfies each block' gives {}", fname, doc.to_json_text(), g, ts_name(exp)), mon::case(&text, &doc, None, json!(refi::verdict(exp)), json!(g == 1), json!({})));
                    }
                    if let Some(want) = refi::verdict(exp) {
                        for (sw, o) in &opts {
                            rep.evaluations += 1;
                            if eng::matches(o, &m).unwrap_or(!want) != want {
                                rep.violation("nested-array", &format!("c10-merged-blocks-opt:{}", fname), &format!("optimised [{}] blocks over one field ({}) over {} differ", sw.name(), fname, doc.to_json_text()), mon::case(&text, &doc, Some(*sw), json!(want), json!(!want), json!({})));
                                break;
                            }
                        }
                    }
                }
            }
        }
        // long arrays and sibling names: indices 0..13 and far beyond the length (incl. values that
        // wrap in 8 / 16 / 32 bits), field names that are prefixes, suffixes or case variants of each
        // other or contain a space, a dash or a multi-byte character; every leaf uniquely labelled
        if shard == 2 % shards {
            let names = ["a", "ab", "a1", "A", "\u{e9}", "a\u{e9}", "b", "a b", "a-b", "a_b", "ba", "aa", "0", "1", "10"];
            let indices: Vec<usize> = vec![0, 1, 2, 3, 7, 8, 9, 10, 11, 12, 13, 15, 16, 99, 100, 255, 256, 257, 65536, 65537, 4294967296, 4294967297, 4294967306];
            let mut lbl = 0u64;
            let mut leaf = |pre: &str| -> DVal {
                lbl += 1;
                if lbl % 3 == 0 { DVal::UInt(5000 + lbl) } else { DVal::Str(format!("{}{}", pre, lbl)) }
            };
            let mut wide_docs: Vec<DVal> = vec![];
            for variant in 0..4usize {
                let mut root: Vec<(String, DVal)> = vec![];
                for (ni, n) in names.iter().enumerate() {
                    // leave some names out so that a sibling with a similar name is the only candidate
                    if (ni + variant) % 4 == 3 {
                        continue;
                    }
                    let v = match (ni + variant) % 3 {
                        0 => DVal::Arr((0..(11 + variant * 2)).map(|i| if i % 4 == 1 { DVal::Obj(names.iter().filter(|m| (m.len() + i) % 3 != 0).map(|m| (m.to_string(), leaf("e"))).collect()) } else { leaf("x") }).collect()),
                        1 => DVal::Obj(names.iter().enumerate().filter(|(mi, _)| (mi + variant) % 5 != 0).map(|(mi, m)| (m.to_string(), if mi % 3 == 0 { DVal::Arr((0..12).map(|_| leaf("y")).collect()) } else { leaf("o") })).collect()),
                        _ => leaf("s"),
                    };
                    root.push((n.to_string(), v));
                }
                wide_docs.push(DVal::Obj(root));
            }
            let mut wpaths: Vec<Vec<Seg>> = vec![];
            for n1 in names.iter() {
                wpaths.push(vec![Seg { name: n1.to_string(), index: None }]);
                for &i in &indices {
                    wpaths.push(vec![Seg { name: n1.to_string(), index: Some(i) }]);
                    for n2 in names.iter() {
                        wpaths.push(vec![Seg { name: n1.to_string(), index: Some(i) }, Seg { name: n2.to_string(), index: None }]);
                    }
                }
                for n2 in names.iter() {
                    wpaths.push(vec![Seg { name: n1.to_string(), index: None }, Seg { name: n2.to_string(), index: None }]);
                    for &i in &indices {
                        wpaths.push(vec![Seg { name: n1.to_string(), index: None }, Seg { name: n2.to_string(), index: Some(i) }]);
                    }
                }
            }
            for (di, doc) in wide_docs.iter().enumerate() {
                let ymap = to_yaml_map(doc);
                let jval = JsonDoc(to_json(doc));
                let jmap = match &jval.0 {
                    serde_json::Value::Object(m) => m.clone(),
                    _ => serde_json::Map::new(),
                };
                let smap: HashMap<String, StdVal> = to_std_doc(doc, di as u64, false);
                let mobj = to_myobj(doc);
                for p in &wpaths {
                    let key = path_text(p);
                    let want = walk(doc, p);
                    let finds: [(&str, Option<DVal>); 5] = [
                        ("yaml-mapping Object::find", Object::find(&ymap, &key).map(|v| from_value(&v))),
                        ("json-map Object::find", Object::find(&jmap, &key).map(|v| from_value(&v))),
                        ("json-value Document::find", Document::find(&jval.0, &key).map(|v| from_value(&v))),
                        ("HashMap Object::find", Object::find(&smap, &key).map(|v| from_value(&v))),
                        ("custom Object default find", Object::find(&mobj, &key).map(|v| from_value(&v))),
                    ];
                    for (name, got) in finds.iter() {
                        rep.evaluations += 1;
                        rep.count("wide_find_cells");
                        let ok = match (want, got) {
                            (None, None) => true,
                            (Some(w), Some(g)) => same(w, g),
                            _ => false,
                        };
                        if !ok {
                            rep.violation(
                                "find",
                                &format!("c10-find-wide:{}:{}", name, if want.is_some() { "wrong-or-missing" } else { "fabricated" }),
                                &format!("{}({:?}) on {} returned {} , the path addresses {}", name, key, doc.to_json_text(), got.as_ref().map(|g| g.to_json_text()).unwrap_or("None".into()), want.map(|w| w.to_json_text()).unwrap_or("nothing".into())),
                                json!({"doc": doc.to_json_text(), "key": key, "expected": want.map(|w| w.to_json_text()), "observed": got.as_ref().map(|g| g.to_json_text())}),
                            );
                        }
                    }
                    if want.is_some() && p.iter().any(|s| s.index.map(|i| i >= 10).unwrap_or(false)) {
                        rep.count("wide_index_ge_10_resolved");
                        rep.nontrivial_key(&format!("W|{}|{}", di, key));
                    }
                    // rule level: the addressed leaf (or a label no path addresses) through the loader's key parser
                    if !rng.chance(if ctx.quick() { 12 } else { 60 }) {
                        continue;
                    }
                    let leafv = match want {
                        Some(DVal::Str(s)) => RVal::Str(s.clone()),
                        Some(DVal::UInt(u)) => RVal::Int(*u as i64),
                        _ => RVal::Str("x1".into()),
                    };
                    for (form, ast) in [("dotted", dotted_rule(p, leafv.clone(), KMod::None)), ("dotted-any", dotted_rule(p, RVal::Str("*".into()), KMod::None)), ("nested", nested_rule(p, leafv.clone()))] {
                        let Some(text) = ast.to_text() else { continue };
                        let Some(rule) = eng::load_ok(&text) else { continue };
                        let exp = rf.eval_rule(&ast, doc);
                        rep.evaluations += 1;
                        rep.count("wide_rule_cells");
                        if let Some(want) = refi::verdict(exp) {
                            for sw in [eng::Sw(15), eng::Sw(2)] {
                                if let Ok(o) = eng::optimise(&rule, sw) {
                                    if eng::matches(&o, &ymap).unwrap_or(want) != want {
                                        rep.violation("rule", &format!("c10-rule-wide-opt:{}", form), &format!("{} rule for path {:?} on {}: optimised [{}] verdict is {} , the path semantics give {}", form, key, doc.to_json_text(), sw.name(), !want, want), mon::case(&text, doc, Some(sw), json!(want), json!(!want), json!({"form": form})));
                                        break;
                                    }
                                }
                            }
                        }
                        match eng::solve3(&rule, &ymap) {
                            Ok(g) => {
                                if refi::from_code(g) & exp == 0 {
                                    rep.violation("rule", &format!("c10-rule-wide:{}", form), &format!("{} rule for path {:?} on {}: engine {} , reference {}", form, key, doc.to_json_text(), ts_name(refi::from_code(g)), ts_name(exp)), mon::case(&text, doc, None, json!(refi::verdict(exp)), json!(g == 1), json!({"form": form})));
                                }
                            }
                            Err(pn) => rep.violation("panic", &format!("panic:{}", pn.sig()), &format!("path rule panicked: {}", pn.sig()), mon::case(&text, doc, None, json!("no-panic"), json!(pn.sig()), json!({}))),
                        }
                    }
                }
            }
        }
        // arbitrary key strings: totality, and nothing fabricated
        let alpha: Vec<char> = "ab[]..012-9 é".chars().collect();
        for _ in 0..ctx.size(4000, 60000) {
            let doc = &docs[rng.below(docs.len())];
            let n = rng.below(9);
            let mut key: String = (0..n).map(|_| *rng.pick(&alpha)).collect();
            if rng.chance(20) {
                key = rng.pick(&["a[", "a[]", "a[-1]", "a[99999999999999999999]", "[0]", "a[0]x", "a..b", ".a", "a.", "", "a[0][1]", "a[ 0]", "a[0].", "a[+1]", "a[1e0]", "b[١]"]).to_string();
            }
            let ymap = to_yaml_map(doc);
            let mobj = to_myobj(doc);
            for (name, r) in [("yaml", eng::guard(|| Object::find(&ymap, &key).map(|v| from_value(&v)))), ("custom", eng::guard(|| Object::find(&mobj, &key).map(|v| from_value(&v))))] {
                rep.evaluations += 1;
                match r {
                    Err(p) => rep.violation("panic", &format!("panic:{}", p.sig()), &format!("find({:?}) panicked: {}", key, p.sig()), json!({"doc": doc.to_json_text(), "key": key})),
                    Ok(Some(v)) => {
                        if !contains_value(doc, &v) {
                            rep.violation("fabricated", "c10-fabricated", &format!("{} find({:?}) returned {} which does not occur in {}", name, key, v.to_json_text(), doc.to_json_text()), json!({"doc": doc.to_json_text(), "key": key}));
                        }
                        if let Some(p) = parse_path(&key) {
                            if !walk(doc, &p).map(|w| same(w, &v)).unwrap_or(false) {
                                rep.violation("find", "c10-find-random", &format!("{} find({:?}) returned {} , the path addresses {:?}", name, key, v.to_json_text(), walk(doc, &p).map(|w| w.to_json_text())), json!({"doc": doc.to_json_text(), "key": key}));
                            }
                        }
                    }
                    Ok(None) => {
                        if let Some(p) = parse_path(&key) {
                            if walk(doc, &p).is_some() {
                                rep.violation("find", "c10-find-random", &format!("{} find({:?}) returned nothing although the path addresses a value", name, key), json!({"doc": doc.to_json_text(), "key": key}));
                            }
                        }
                    }
                }
            }
            rep.count("arbitrary_keys");
        }
        let _ = dval::lookup;
        rep
    });
    let mut rep = rep;
    rep.add("documents", docs.len() as u64);
    rep.add("paths", all_paths.len() as u64);
    crate::regress::replay_witnesses(ctx, &mut rep);
    finish(
        ctx,
        rep,
        Meta {
            rule: format!("complete enumeration: all {} well-formed paths of depth <= 4 over names {{a,b}} with optional index in {{0,1,2}} per segment x {} documents of a shape family of depth <= 4 (scalars, null, empty and non-empty objects and arrays, arrays of objects, uniquely labelled leaves) through five find() implementations, plus long arrays (indices up to 13 and far beyond, incl. values that wrap in 8/16/32 bits) and sibling field names that are prefixes / case variants / digit strings of each other (yaml mapping, json map, json value, HashMap of std types, hand-written Object with the default find); for sampled (path, document) the rule `path: leaf`, `path: *`, `not(path): leaf` and the nested-mapping spelling are compared with the reference interpreter (the positive forms also after optimisation with three switch sets), and dotted vs nested spelling with each other; plus arbitrary key strings for totality (no panic, nothing fabricated). non-trivial = path failing at its last or second-to-last step or succeeding at depth >= 2; distinct by (path, document)", all_paths.len(), docs.len()),
            exhaustive: true,
            assumptions: vec!["multi-index segments (a[0][1]) and signed indices are not well-formed paths: totality only".into()],
            min_nontrivial: 1000,
            extra: json!({}),
        },
    )
}
