//! Renderings of `DVal` into the std-type, hand-written Object/Array, recording and flat
//! Document representations (the crate's traits are in scope only here).

use std::borrow::Cow;
use std::collections::{BTreeMap, HashMap, HashSet};
use std::sync::{Arc, Mutex};

use tau_engine::{Array, AsValue, Document, Object, Value};

use crate::dval::{parse_path, DVal, Seg};

// ---------------------------------------------------------------------------------------------
// Representation 4: std types through the crate's AsValue / Array / Object impls

#[derive(Clone, Debug)]
pub enum StdVal {
    Unit,
    NoneI64(Option<i64>),
    SomeStr(Option<String>),
    SomeI64(Option<i64>),
    SomeU64(Option<u64>),
    SomeF64(Option<f64>),
    SomeBool(Option<bool>),
    Bool(bool),
    I8(i8),
    I16(i16),
    I32(i32),
    I64(i64),
    Isize(isize),
    U8(u8),
    U16(u16),
    U32(u32),
    U64(u64),
    Usize(usize),
    F32(f32),
    F64(f64),
    Str(String),
    Vec(Vec<StdVal>),
    SetStr(HashSet<String>),
    SetI64(HashSet<i64>),
    SetU64(HashSet<u64>),
    Map(HashMap<String, StdVal>),
}

impl AsValue for StdVal {
    fn as_value(&self) -> Value<'_> {
        match self {
            StdVal::Unit => ().as_value(),
            StdVal::NoneI64(o) => o.as_value(),
            StdVal::SomeStr(o) => o.as_value(),
            StdVal::SomeI64(o) => o.as_value(),
            StdVal::SomeU64(o) => o.as_value(),
            StdVal::SomeF64(o) => o.as_value(),
            StdVal::SomeBool(o) => o.as_value(),
            StdVal::Bool(x) => x.as_value(),
            StdVal::I8(x) => x.as_value(),
            StdVal::I16(x) => x.as_value(),
            StdVal::I32(x) => x.as_value(),
            StdVal::I64(x) => x.as_value(),
            StdVal::Isize(x) => x.as_value(),
            StdVal::U8(x) => x.as_value(),
            StdVal::U16(x) => x.as_value(),
            StdVal::U32(x) => x.as_value(),
            StdVal::U64(x) => x.as_value(),
            StdVal::Usize(x) => x.as_value(),
            StdVal::F32(x) => x.as_value(),
            StdVal::F64(x) => x.as_value(),
            StdVal::Str(x) => x.as_value(),
            StdVal::Vec(x) => x.as_value(),
            StdVal::SetStr(x) => x.as_value(),
            StdVal::SetI64(x) => x.as_value(),
            StdVal::SetU64(x) => x.as_value(),
            StdVal::Map(x) => x.as_value(),
        }
    }
}

/// `variant` selects among the std types able to hold the value exactly (narrowest integer
/// width, f32 when exact, Option wrappers, HashSet for order-free duplicate-free arrays).
pub fn to_std(v: &DVal, variant: u64, allow_set: bool) -> StdVal {
    match v {
        DVal::Null => match variant % 2 {
            0 => StdVal::Unit,
            _ => StdVal::NoneI64(None),
        },
        DVal::Bool(b) => match variant % 2 {
            0 => StdVal::Bool(*b),
            _ => StdVal::SomeBool(Some(*b)),
        },
        DVal::Int(i) => {
            let i = *i;
            let mut c = vec![StdVal::I64(i), StdVal::Isize(i as isize), StdVal::SomeI64(Some(i))];
            if i >= i8::MIN as i64 && i <= i8::MAX as i64 {
                c.push(StdVal::I8(i as i8));
            }
            if i >= i16::MIN as i64 && i <= i16::MAX as i64 {
                c.push(StdVal::I16(i as i16));
            }
            if i >= i32::MIN as i64 && i <= i32::MAX as i64 {
                c.push(StdVal::I32(i as i32));
            }
            c[(variant % c.len() as u64) as usize].clone()
        }
        DVal::UInt(u) => {
            let u = *u;
            let mut c = vec![StdVal::U64(u), StdVal::Usize(u as usize), StdVal::SomeU64(Some(u))];
            if u <= u8::MAX as u64 {
                c.push(StdVal::U8(u as u8));
            }
            if u <= u16::MAX as u64 {
                c.push(StdVal::U16(u as u16));
            }
            if u <= u32::MAX as u64 {
                c.push(StdVal::U32(u as u32));
            }
            c[(variant % c.len() as u64) as usize].clone()
        }
        DVal::Float(f) => {
            let mut c = vec![StdVal::F64(*f), StdVal::SomeF64(Some(*f))];
            if (*f as f32) as f64 == *f || f.is_nan() {
                c.push(StdVal::F32(*f as f32));
            }
            c[(variant % c.len() as u64) as usize].clone()
        }
        DVal::Str(s) => match variant % 2 {
            0 => StdVal::Str(s.clone()),
            _ => StdVal::SomeStr(Some(s.clone())),
        },
        DVal::Arr(a) => {
            if allow_set && variant % 2 == 1 && a.len() <= 1 {
                // a HashSet has no order: only used for arrays of <= 1 element, where order and
                // duplicates cannot matter
                if a.iter().all(|x| matches!(x, DVal::Str(_))) {
                    return StdVal::SetStr(a.iter().map(|x| if let DVal::Str(s) = x { s.clone() } else { unreachable!() }).collect());
                }
                if a.iter().all(|x| matches!(x, DVal::Int(_))) {
                    return StdVal::SetI64(a.iter().map(|x| if let DVal::Int(s) = x { *s } else { unreachable!() }).collect());
                }
                if a.iter().all(|x| matches!(x, DVal::UInt(_))) {
                    return StdVal::SetU64(a.iter().map(|x| if let DVal::UInt(s) = x { *s } else { unreachable!() }).collect());
                }
            }
            StdVal::Vec(a.iter().enumerate().map(|(i, x)| to_std(x, variant.wrapping_add(i as u64 * 7), allow_set)).collect())
        }
        DVal::Obj(o) => StdVal::Map(
            o.iter()
                .enumerate()
                .map(|(i, (k, v))| (k.clone(), to_std(v, variant.wrapping_add(i as u64 * 13 + 1), allow_set)))
                .collect(),
        ),
    }
}

pub fn to_std_doc(v: &DVal, variant: u64, allow_set: bool) -> HashMap<String, StdVal> {
    match to_std(v, variant, allow_set) {
        StdVal::Map(m) => m,
        _ => HashMap::new(),
    }
}

// ---------------------------------------------------------------------------------------------
// Representation 5: hand-written Object / Array (default `find`)

pub struct MyObj(pub BTreeMap<String, MyVal>);
pub struct MyArr(pub Vec<MyVal>);
pub enum MyVal {
    Null,
    Bool(bool),
    Int(i64),
    UInt(u64),
    Float(f64),
    Str(String),
    Arr(MyArr),
    Obj(MyObj),
}
impl MyVal {
    fn value(&self) -> Value<'_> {
        match self {
            MyVal::Null => Value::Null,
            MyVal::Bool(b) => Value::Bool(*b),
            MyVal::Int(i) => Value::Int(*i),
            MyVal::UInt(u) => Value::UInt(*u),
            MyVal::Float(f) => Value::Float(*f),
            MyVal::Str(s) => Value::String(Cow::Borrowed(s)),
            MyVal::Arr(a) => Value::Array(a),
            MyVal::Obj(o) => Value::Object(o),
        }
    }
}
impl Array for MyArr {
    fn iter(&self) -> Box<dyn Iterator<Item = Value<'_>> + '_> {
        Box::new(self.0.iter().map(|v| v.value()))
    }
    fn len(&self) -> usize {
        self.0.len()
    }
}
impl Object for MyObj {
    fn get(&self, key: &str) -> Option<Value<'_>> {
        self.0.get(key).map(|v| v.value())
    }
    fn keys(&self) -> Vec<Cow<'_, str>> {
        self.0.keys().map(|k| Cow::Borrowed(k.as_str())).collect()
    }
    fn len(&self) -> usize {
        self.0.len()
    }
}
pub fn to_myval(v: &DVal) -> MyVal {
    match v {
        DVal::Null => MyVal::Null,
        DVal::Bool(b) => MyVal::Bool(*b),
        DVal::Int(i) => MyVal::Int(*i),
        DVal::UInt(u) => MyVal::UInt(*u),
        DVal::Float(f) => MyVal::Float(*f),
        DVal::Str(s) => MyVal::Str(s.clone()),
        DVal::Arr(a) => MyVal::Arr(MyArr(a.iter().map(to_myval).collect())),
        DVal::Obj(o) => MyVal::Obj(MyObj(o.iter().map(|(k, v)| (k.clone(), to_myval(v))).collect())),
    }
}
pub fn to_myobj(v: &DVal) -> MyObj {
    match to_myval(v) {
        MyVal::Obj(o) => o,
        _ => MyObj(BTreeMap::new()),
    }
}

// ---------------------------------------------------------------------------------------------
// Representation 6: recording document with its *own* find (the harness path walk), which logs
// every `find` call at every nesting level, can yield inside find, and can deliver adversarial
// answers.

pub type FindLog = Arc<Mutex<Vec<(String, String)>>>;

pub struct RecObj {
    /// where this object sits in the document ("" = root, "a", "a.b[0]", ...)
    pub at: String,
    pub map: Vec<(String, RecVal)>,
    pub log: Option<FindLog>,
    pub yield_in_find: bool,
}
pub struct RecArr(pub Vec<RecVal>);
pub enum RecVal {
    Null,
    Bool(bool),
    Int(i64),
    UInt(u64),
    Float(f64),
    Str(String),
    Arr(RecArr),
    Obj(RecObj),
}
impl RecVal {
    fn value(&self) -> Value<'_> {
        match self {
            RecVal::Null => Value::Null,
            RecVal::Bool(b) => Value::Bool(*b),
            RecVal::Int(i) => Value::Int(*i),
            RecVal::UInt(u) => Value::UInt(*u),
            RecVal::Float(f) => Value::Float(*f),
            RecVal::Str(s) => Value::String(Cow::Borrowed(s)),
            RecVal::Arr(a) => Value::Array(a),
            RecVal::Obj(o) => Value::Object(o),
        }
    }
}
impl Array for RecArr {
    fn iter(&self) -> Box<dyn Iterator<Item = Value<'_>> + '_> {
        Box::new(self.0.iter().map(|v| v.value()))
    }
    fn len(&self) -> usize {
        self.0.len()
    }
}
impl RecObj {
    fn child(&self, name: &str) -> Option<&RecVal> {
        self.map.iter().rev().find(|(k, _)| k == name).map(|(_, v)| v)
    }
    fn walk(&self, path: &[Seg]) -> Option<&RecVal> {
        let mut cur_obj: &RecObj = self;
        let mut cur: Option<&RecVal> = None;
        for (n, seg) in path.iter().enumerate() {
            if n > 0 {
                match cur {
                    Some(RecVal::Obj(o)) => cur_obj = o,
                    _ => return None,
                }
            }
            let next = cur_obj.child(&seg.name)?;
            cur = Some(match seg.index {
                None => next,
                Some(i) => match next {
                    RecVal::Arr(a) => a.0.get(i)?,
                    _ => return None,
                },
            });
        }
        cur
    }
}
impl Object for RecObj {
    fn find(&self, key: &str) -> Option<Value<'_>> {
        if let Some(log) = &self.log {
            log.lock().unwrap().push((self.at.clone(), key.to_string()));
        }
        if self.yield_in_find {
            std::thread::yield_now();
        }
        let p = parse_path(key)?;
        self.walk(&p).map(|v| v.value())
    }
    fn get(&self, key: &str) -> Option<Value<'_>> {
        self.child(key).map(|v| v.value())
    }
    fn keys(&self) -> Vec<Cow<'_, str>> {
        self.map.iter().map(|(k, _)| Cow::Borrowed(k.as_str())).collect()
    }
    fn len(&self) -> usize {
        self.map.len()
    }
}
fn to_recval(v: &DVal, at: &str, log: &Option<FindLog>, y: bool) -> RecVal {
    match v {
        DVal::Null => RecVal::Null,
        DVal::Bool(b) => RecVal::Bool(*b),
        DVal::Int(i) => RecVal::Int(*i),
        DVal::UInt(u) => RecVal::UInt(*u),
        DVal::Float(f) => RecVal::Float(*f),
        DVal::Str(s) => RecVal::Str(s.clone()),
        DVal::Arr(a) => RecVal::Arr(RecArr(
            a.iter().enumerate().map(|(i, x)| to_recval(x, &format!("{}[{}]", at, i), log, y)).collect(),
        )),
        DVal::Obj(o) => RecVal::Obj(RecObj {
            at: at.to_string(),
            map: o
                .iter()
                .map(|(k, v)| {
                    let p = if at.is_empty() { k.clone() } else { format!("{}.{}", at, k) };
                    (k.clone(), to_recval(v, &p, log, y))
                })
                .collect(),
            log: log.clone(),
            yield_in_find: y,
        }),
    }
}
pub fn to_rec(v: &DVal, log: Option<FindLog>, yield_in_find: bool) -> RecObj {
    match to_recval(v, "", &log, yield_in_find) {
        RecVal::Obj(o) => o,
        _ => RecObj { at: String::new(), map: vec![], log, yield_in_find },
    }
}

// Representation 6b: recording object that relies on the *provided* `Object::find` (it only
// implements `get` / `keys` / `len`), so that every single step of a path lookup is logged at the
// object it is made on: (location, name asked for); a `keys()` call is logged as "<keys>".
pub struct GetObj {
    pub at: String,
    pub map: Vec<(String, GetVal)>,
    pub log: FindLog,
}
pub struct GetArr(pub Vec<GetVal>);
pub enum GetVal {
    Null,
    Bool(bool),
    Int(i64),
    UInt(u64),
    Float(f64),
    Str(String),
    Arr(GetArr),
    Obj(GetObj),
}
impl GetVal {
    fn value(&self) -> Value<'_> {
        match self {
            GetVal::Null => Value::Null,
            GetVal::Bool(b) => Value::Bool(*b),
            GetVal::Int(i) => Value::Int(*i),
            GetVal::UInt(u) => Value::UInt(*u),
            GetVal::Float(f) => Value::Float(*f),
            GetVal::Str(s) => Value::String(Cow::Borrowed(s)),
            GetVal::Arr(a) => Value::Array(a),
            GetVal::Obj(o) => Value::Object(o),
        }
    }
}
impl Array for GetArr {
    fn iter(&self) -> Box<dyn Iterator<Item = Value<'_>> + '_> {
        Box::new(self.0.iter().map(|v| v.value()))
    }
    fn len(&self) -> usize {
        self.0.len()
    }
}
impl Object for GetObj {
    fn get(&self, key: &str) -> Option<Value<'_>> {
        self.log.lock().unwrap().push((self.at.clone(), key.to_string()));
        self.map.iter().rev().find(|(k, _)| k == key).map(|(_, v)| v.value())
    }
    fn keys(&self) -> Vec<Cow<'_, str>> {
        self.log.lock().unwrap().push((self.at.clone(), "<keys>".to_string()));
        self.map.iter().map(|(k, _)| Cow::Borrowed(k.as_str())).collect()
    }
    fn len(&self) -> usize {
        self.map.len()
    }
}
fn to_getval(v: &DVal, at: &str, log: &FindLog) -> GetVal {
    match v {
        DVal::Null => GetVal::Null,
        DVal::Bool(b) => GetVal::Bool(*b),
        DVal::Int(i) => GetVal::Int(*i),
        DVal::UInt(u) => GetVal::UInt(*u),
        DVal::Float(f) => GetVal::Float(*f),
        DVal::Str(s) => GetVal::Str(s.clone()),
        DVal::Arr(a) => GetVal::Arr(GetArr(a.iter().map(|x| to_getval(x, at, log)).collect())),
        DVal::Obj(o) => GetVal::Obj(GetObj {
            at: at.to_string(),
            map: o
                .iter()
                .map(|(k, v)| {
                    let p = if at.is_empty() { k.clone() } else { format!("{}.{}", at, k) };
                    (k.clone(), to_getval(v, &p, log))
                })
                .collect(),
            log: log.clone(),
        }),
    }
}
/// (locations carry no array indices: an element of `a` sits at location `a`)
pub fn to_getobj(v: &DVal, log: FindLog) -> GetObj {
    match to_getval(v, "", &log) {
        GetVal::Obj(o) => o,
        _ => GetObj { at: String::new(), map: vec![], log },
    }
}

/// Representation 7: a bare `Document` (not an `Object`) answering from a flat table of
/// pre-resolved keys; anything else is absent. Used to check that the engine needs nothing but
/// `Document::find`, and for adversarial answers.
pub struct FlatDoc {
    pub table: Vec<(String, MyVal)>,
    pub log: Option<FindLog>,
}
impl Document for FlatDoc {
    fn find(&self, key: &str) -> Option<Value<'_>> {
        if let Some(log) = &self.log {
            log.lock().unwrap().push((String::new(), key.to_string()));
        }
        self.table.iter().find(|(k, _)| k == key).map(|(_, v)| v.value())
    }
}

// ---------------------------------------------------------------------------------------------
// Engine Value -> DVal (for C10: what did find() return?)

pub fn from_value(v: &Value<'_>) -> DVal {
    match v {
        Value::Null => DVal::Null,
        Value::Bool(b) => DVal::Bool(*b),
        Value::Float(f) => DVal::Float(*f),
        Value::Int(i) => DVal::Int(*i),
        Value::UInt(u) => DVal::UInt(*u),
        Value::String(s) => DVal::Str(s.to_string()),
        Value::Array(a) => DVal::Arr(a.iter().map(|x| from_value(&x)).collect()),
        Value::Object(o) => {
            let mut out = vec![];
            for k in o.keys() {
                if let Some(x) = o.get(k.as_ref()) {
                    out.push((k.to_string(), from_value(&x)));
                }
            }
            DVal::Obj(out)
        }
    }
}


/// Representation 8 (C03 only): a document that answers every key, with a different value kind
/// on every call (and sometimes nothing) - user code is allowed to be inconsistent, the engine
/// must still not panic.
pub struct FickleDoc {
    pub values: Vec<MyVal>,
    pub calls: std::sync::atomic::AtomicUsize,
}
impl Document for FickleDoc {
    fn find(&self, _key: &str) -> Option<Value<'_>> {
        let i = self.calls.fetch_add(1, std::sync::atomic::Ordering::Relaxed);
        if i % 7 == 6 || self.values.is_empty() {
            None
        } else {
            Some(self.values[i % self.values.len()].value())
        }
    }
}
