//! Helpers shared by the per-property monitors: case records and the generic replayer.

use serde_json::{json, Value as J};

use crate::dval::{from_yaml, to_yaml, to_yaml_map, DVal};
use crate::eng::{self, Load, Sw};

pub fn doc_text(d: &DVal) -> String {
    serde_yaml::to_string(&to_yaml(d)).unwrap_or_default()
}

pub fn doc_from_text(t: &str) -> DVal {
    serde_yaml::from_str::<serde_yaml::Value>(t).map(|v| from_yaml(&v)).unwrap_or(DVal::Obj(vec![]))
}

/// A replayable (rule, document, switches) case.
pub fn case(rule_text: &str, doc: &DVal, sw: Option<Sw>, expected: J, observed: J, extra: J) -> J {
    json!({
        "rule": rule_text,
        "doc": doc_text(doc),
        "doc_json": doc.to_json_text(),
        "switches": sw.map(|s| s.0 as i64).unwrap_or(-1),
        "switch_names": sw.map(|s| s.name()).unwrap_or_else(|| "unoptimised".into()),
        "expected": expected,
        "observed": observed,
        "extra": extra,
    })
}

fn tv(c: u8) -> &'static str {
    match c {
        0 => "false",
        1 => "true",
        _ => "missing",
    }
}

/// Re-execute a recorded case against the current engine and say whether it still deviates.
/// Returns the process exit code (0 = no longer deviates, 1 = still deviates, 2 = cannot replay).
pub fn replay(path: &str) -> i32 {
    let text = match std::fs::read_to_string(path) {
        Ok(t) => t,
        Err(e) => {
            println!("cannot read {}: {}", path, e);
            return 2;
        }
    };
    let v: J = match serde_json::from_str(&text) {
        Ok(v) => v,
        Err(e) => {
            println!("cannot parse {}: {}", path, e);
            return 2;
        }
    };
    let prop = v["property"].as_str().unwrap_or("?").to_string();
    println!("replaying {} kind={} what={}", prop, v["kind"].as_str().unwrap_or("?"), v["what"].as_str().unwrap_or("?"));
    let case = &v["case"];
    if case.get("layer").is_some() {
        // a C04 input: run it through its layer again
        return crate::c04::one(path);
    }
    if let (Some(doc), Some(key)) = (case["doc"].as_str(), case["key"].as_str()) {
        if case.get("rule").is_none() {
            // a C10 lookup: doc is JSON text, key a path
            let d = crate::dval::from_yaml(&serde_yaml::from_str::<serde_yaml::Value>(doc).unwrap_or(serde_yaml::Value::Null));
            let want = crate::dval::parse_path(key).and_then(|p| crate::dval::walk(&d, &p).cloned());
            let m = crate::dval::to_yaml_map(&d);
            let got = eng::guard(|| tau_engine::Object::find(&m, key).map(|v| crate::reps::from_value(&v)));
            println!("find({:?}) on {} -> {:?} ; the path addresses {:?}", key, d.to_json_text(), got, want);
            let same = match (&got, &want) {
                (Ok(None), None) => true,
                (Ok(Some(a)), Some(b)) => crate::dval::same(a, b),
                _ => false,
            };
            if !same && crate::dval::parse_path(key).is_some() {
                println!("VIOLATION property={} replay={}", prop, path);
                return 1;
            }
            println!("case no longer deviates");
            return 0;
        }
    }
    let Some(rule_text) = case["rule"].as_str() else {
        println!("case has no rule text; printing the recorded case only:\n{}", serde_json::to_string_pretty(case).unwrap());
        return 2;
    };
    println!("--- rule\n{}", rule_text);
    let rule = match eng::load(rule_text) {
        Ok(Load::Ok(r)) => *r,
        Ok(Load::Err(e)) => {
            println!("load: Err({})", e);
            return if case["expected"] == json!("load-ok") { 1 } else { 0 };
        }
        Err(p) => {
            println!("load: PANIC {}", p.sig());
            println!("VIOLATION property={} replay={}", prop, path);
            return 1;
        }
    };
    println!("--- unoptimised: {}", eng::printed(&rule));
    // property-specific re-evaluation where the generic one below would not reproduce the oracle
    if let Some(code) = replay_specific(&prop, v["kind"].as_str().unwrap_or(""), case, &rule, rule_text, path) {
        return code;
    }
    let docs: Vec<DVal> = if let Some(t) = case["doc"].as_str() {
        vec![doc_from_text(t)]
    } else {
        vec![]
    };
    let mut still = false;
    let exp = &case["expected"];
    let want_sw = case["switches"].as_i64().unwrap_or(-1);
    for d in &docs {
        println!("--- doc {}", d.to_json_text());
        let m = to_yaml_map(d);
        let base = eng::matches(&rule, &m);
        let base3 = eng::solve3(&rule, &m);
        println!("unoptimised: matches={:?} three-valued={:?}", base, base3.as_ref().map(|c| tv(*c)));
        if base.is_err() {
            still = true;
        }
        if want_sw < 0 {
            if let (Some(e), Ok(b)) = (exp.as_bool(), &base) {
                if *b != e {
                    still = true;
                }
            }
        }
        for sw in Sw::ALL16.iter().skip(1) {
            match eng::optimise(&rule, *sw) {
                Err(p) => {
                    println!("optimise[{}]: PANIC {}", sw.name(), p.sig());
                    still = true;
                }
                Ok(o) => {
                    let r = eng::matches(&o, &m);
                    let flag = match (&r, &base) {
                        (Ok(a), Ok(b)) if a == b => "",
                        _ => {
                            still = true;
                            "   <-- differs from unoptimised"
                        }
                    };
                    println!("optimise[{:>28}]: matches={:?}{}", sw.name(), r, flag);
                    if want_sw == sw.0 as i64 {
                        println!("    printed: {}", eng::printed(&o));
                    }
                }
            }
        }
    }
    if docs.is_empty() {
        for sw in Sw::ALL16.iter() {
            if let Err(p) = eng::optimise(&rule, *sw) {
                println!("optimise[{}]: PANIC {}", sw.name(), p.sig());
                still = true;
            }
        }
        if let Err(p) = eng::validate(&rule) {
            println!("validate: PANIC {}", p.sig());
            still = true;
        }
    }
    if still {
        println!("VIOLATION property={} replay={}", prop, path);
        1
    } else {
        println!("case no longer deviates");
        0
    }
}

fn verdict_line(prop: &str, path: &str, still: bool) -> i32 {
    if still {
        println!("VIOLATION property={} replay={}", prop, path);
        1
    } else {
        println!("case no longer deviates");
        0
    }
}

/// Re-run the oracle of the property that wrote the case. None = use the generic replay.
fn replay_specific(prop: &str, kind: &str, case: &J, rule: &tau_engine::Rule, rule_text: &str, path: &str) -> Option<i32> {
    let sw = case["switches"].as_i64().unwrap_or(-1);
    let variant = |r: &tau_engine::Rule| -> tau_engine::Rule {
        if sw > 0 {
            eng::optimise(r, Sw(sw as u8)).unwrap_or_else(|_| r.clone())
        } else {
            r.clone()
        }
    };
    match (prop, kind) {
        ("C13", _) => {
            let r = variant(rule);
            let res = eng::validate(&r);
            println!("validate(): {:?}", res);
            let want_err = case["expected"].as_str() == Some("Err");
            let still = match &res {
                Err(_) => true,
                Ok(Ok(_)) => want_err,
                Ok(Err(e)) => !want_err || case["failing_examples"].as_array().map(|a| a.iter().filter_map(|x| x.as_str()).any(|m| !m.is_empty() && !e.contains(m))).unwrap_or(false),
            };
            Some(verdict_line(prop, path, still))
        }
        ("C14", _) => {
            let r = variant(rule);
            let ser = serde_yaml::to_string(&r).unwrap_or_default();
            println!("--- serialised\n{}", ser);
            let still = match eng::load(&ser) {
                Ok(Load::Ok(b)) => {
                    println!("--- reloaded: {}", eng::printed(&b));
                    // second trip, as the monitor does
                    let again = eng::optimise(&b, Sw(if sw == 15 { 2 } else { 15 })).unwrap_or_else(|_| (*b).clone());
                    let second = serde_yaml::to_string(&again).ok().map(|t| eng::load(&t));
                    let second_ok = match second {
                        Some(Ok(Load::Ok(b2))) => eng::printed(&b2) == eng::printed(rule),
                        _ => false,
                    };
                    println!("second optimise/serialise/reload round gives the original rule: {}", second_ok);
                    eng::printed(&b) != eng::printed(rule) || !second_ok
                }
                other => {
                    println!("reload failed: {}", matches!(other, Err(_)));
                    true
                }
            };
            Some(verdict_line(prop, path, still))
        }
        ("C16", "foreign-key") => {
            let d = doc_from_text(case["doc"].as_str().unwrap_or("{}"));
            let log: crate::reps::FindLog = std::sync::Arc::new(std::sync::Mutex::new(vec![]));
            let rec = crate::reps::to_rec(&d, Some(log.clone()), false);
            let r = variant(rule);
            let _ = eng::matches(&r, &rec);
            let events = log.lock().unwrap().clone();
            println!("find() calls: {:?}", events);
            let asked = case["observed"]["asked"].as_str().unwrap_or("\u{0}");
            Some(verdict_line(prop, path, events.iter().any(|(_, k)| k == asked)))
        }
        ("C17", _) => {
            let orig = case["extra"]["original_order_rule"].as_str().or(case["extra"]["first_order_rule"].as_str())?;
            let d = doc_from_text(case["doc"].as_str().unwrap_or("{}"));
            let m = to_yaml_map(&d);
            // (the block-chain stage compares one optimised form of the two orders)
            let fsw = match case["extra"]["form"].as_str() {
                Some("all switches") => 15u8,
                Some("coalesce+shake") => 3,
                Some("shake") => 2,
                _ => 0,
            };
            let form = |r: tau_engine::Rule| if fsw == 0 { r } else { eng::optimise(&r, Sw(fsw)).unwrap_or(r) };
            let a = eng::load_ok(orig).map(form).and_then(|r| eng::matches(&r, &m).ok());
            let b = eng::matches(&form(rule.clone()), &m).ok();
            println!("original order: {:?}  permuted order: {:?}", a, b);
            Some(verdict_line(prop, path, a != b))
        }
        ("C05", "structure") => {
            let cond = serde_yaml::from_str::<serde_yaml::Value>(rule_text).ok()?.get("detection")?.get("condition")?.as_str()?.to_string();
            let reference = crate::cgram::parse(&cond).ok().map(|c| crate::cgram::strip_parens(&c));
            let engine = crate::cgram::from_engine(&rule.detection.expression);
            println!("engine tree: {:?}\nreference tree: {:?}", engine.as_ref().map(|c| c.text()), reference.as_ref().map(|c| c.text()));
            Some(verdict_line(prop, path, engine != reference))
        }
        ("C11", "representation") => {
            let d = doc_from_text(case["doc"].as_str().unwrap_or("{}"));
            let y = eng::solve3(rule, &to_yaml_map(&d)).ok();
            let variant_no = case["extra"]["std_variant"].as_u64().unwrap_or(0);
            let name = case["extra"]["representation"].as_str().unwrap_or("");
            let other = match name {
                "json-value" => eng::solve3(rule, &crate::dval::to_json(&d)).ok(),
                "custom-object(default find)" => eng::solve3(rule, &crate::reps::to_myobj(&d)).ok(),
                "custom-object(own find)" => eng::solve3(rule, &crate::reps::to_rec(&d, None, false)).ok(),
                _ => eng::solve3(rule, &crate::reps::to_std_doc(&d, variant_no, true)).ok(),
            };
            println!("yaml-mapping: {:?}  {}: {:?}", y, name, other);
            Some(verdict_line(prop, path, y != other))
        }
        ("C12", _) | ("C15", _) => {
            println!("this witness depends on history / threads / a second build: re-run `./check {} --tier quick` with VERIF_SEED={} to reproduce; the generic replay below only re-evaluates the rule", prop, case.get("seed").and_then(|s| s.as_u64()).unwrap_or(1));
            None
        }
        _ => None,
    }
}
