//! The repository's own rule files (read at run time from /repo's working tree) as a seed corpus.

use crate::ast::{rule_from_yaml, RuleAst};

pub struct CorpusRule {
    pub name: String,
    pub text: String,
    pub ast: Option<RuleAst>,
}

pub fn load() -> Vec<CorpusRule> {
    let mut out = vec![];
    let Ok(rd) = std::fs::read_dir("/repo/tests/rules") else { return out };
    let mut paths: Vec<_> = rd.filter_map(|e| e.ok()).map(|e| e.path()).collect();
    paths.sort();
    for p in paths {
        let Ok(text) = std::fs::read_to_string(&p) else { continue };
        let ast = serde_yaml::from_str::<serde_yaml::Value>(&text).ok().and_then(|v| rule_from_yaml(&v, &|c| crate::cgram::parse(c).ok()));
        out.push(CorpusRule { name: p.file_name().map(|n| n.to_string_lossy().to_string()).unwrap_or_default(), text, ast });
    }
    out
}
