//! C14 — rule serialisation round-trips.

use serde_json::json;
use serde_yaml::Value as Y;

use crate::ast::*;
use crate::dval::{to_yaml_map, DVal};
use crate::eng::{self, Load, Sw};
use crate::gen::{self, GenCfg};
use crate::prng::Rng;
use crate::run::{finish, par_shards, Ctx, Meta, Report};

pub const QUOTING: &[&str] = &[
    "*x", "?re", "\"lit\"", "'q'", "1", "1.0", "true", "null", "~", "yes", "no", "0x10", "1e3", ".5", "-", "- x", "a: b", "# c", " lead", "trail ", "a\nb", "@", "`", "!t", "&a", "*a", "%", "{}", "[]", "", "é日", "i", "i*", "=1", ">=2", "<3.5", "a#b", "a #b", "'", "\"", "''", "x\ty", "\\", "|", ">", "---", "...", "? ", ": ", "null ", "True", "NULL", "0o7", "+1", "1_000", ".inf", ".nan", "2001-01-01",
];

fn sprinkle(rng: &mut Rng, es: &mut Entries) {
    for (_, v) in es.iter_mut() {
        match v {
            RVal::Str(s) if rng.chance(45) => *s = rng.pick_str(QUOTING).to_string(),
            RVal::List(ms) => {
                for m in ms.iter_mut() {
                    if let RVal::Str(s) = m {
                        if rng.chance(45) {
                            *s = rng.pick_str(QUOTING).to_string();
                        }
                    }
                }
            }
            RVal::Map(inner) => sprinkle(rng, inner),
            _ => {}
        }
    }
}

fn classes(ast: &RuleAst) -> String {
    let mut set = std::collections::BTreeSet::new();
    fn walk(es: &Entries, set: &mut std::collections::BTreeSet<&'static str>) {
        for (_, v) in es {
            let mut one = |s: &str| {
                if let Some(q) = QUOTING.iter().find(|q| **q == s) {
                    set.insert(*q);
                }
            };
            match v {
                RVal::Str(s) => one(s),
                RVal::List(ms) => ms.iter().for_each(|m| {
                    if let RVal::Str(s) = m {
                        one(s)
                    }
                }),
                RVal::Map(inner) => walk(inner, set),
                _ => {}
            }
        }
    }
    for (_, i) in &ast.idents {
        match i {
            Ident::Map(es) => walk(es, &mut set),
            Ident::Seq(s) => s.iter().for_each(|es| walk(es, &mut set)),
        }
    }
    set.into_iter().collect::<Vec<_>>().join("\u{1}")
}

fn detection_parts(v: &Y) -> Option<(String, Vec<(String, Y)>, Y, Y)> {
    let det = v.get("detection")?.as_mapping()?;
    let cond = det.get("condition")?.as_str()?.to_string();
    let mut ids: Vec<(String, Y)> = det.iter().filter(|(k, _)| k.as_str() != Some("condition")).map(|(k, v)| (k.as_str().unwrap_or("").to_string(), v.clone())).collect();
    ids.sort_by(|a, b| a.0.cmp(&b.0));
    Some((cond, ids, v.get("true_positives").cloned().unwrap_or(Y::Null), v.get("true_negatives").cloned().unwrap_or(Y::Null)))
}

fn same_parts(a: &(String, Vec<(String, Y)>, Y, Y), b: &(String, Vec<(String, Y)>, Y, Y)) -> Option<&'static str> {
    if a.0 != b.0 {
        return Some("condition text");
    }
    if a.1.len() != b.1.len() || a.1.iter().zip(b.1.iter()).any(|(x, y)| x.0 != y.0 || !yaml_same(&x.1, &y.1)) {
        return Some("identifiers");
    }
    if !yaml_same(&a.2, &b.2) {
        return Some("true_positives");
    }
    if !yaml_same(&a.3, &b.3) {
        return Some("true_negatives");
    }
    None
}

pub fn run(ctx: &Ctx) -> i32 {
    let shards = ctx.size(64, 512);
    let per = ctx.size(300, 2500);
    let rep = par_shards(ctx, shards, |shard| {
        let mut rep = Report::new();
        let mut rng = Rng::new(ctx.seed, "C14", shard as u64);
        let cfg = GenCfg::default();
        // (neighbours differ only in case, in leading zeros or in a trailing zero: names a
        // "natural" ordering or a case-folding map would identify)
        let names = ["A", "A0", "A00", "a", "yes", "True", "Null", "n", "y", "on", "I2", "I02", "I10", "sel_1", "sel1", "sel01", "e1"];
        for n in 0..per {
            if ctx.expired() {
                rep.truncated = true;
                break;
            }
            let mut ast = gen::gen_rule(&mut rng, &cfg);
            // identifier names that look like other YAML kinds
            if rng.chance(40) {
                let off = rng.below(names.len());
                let map: Vec<(String, String)> = ast.idents.iter().enumerate().map(|(i, (n, _))| (n.clone(), names[(i + off) % names.len()].to_string())).collect();
                fn ren(c: &Cond, map: &[(String, String)]) -> Cond {
                    let f = |n: &String| map.iter().find(|(a, _)| a == n).map(|(_, b)| b.clone()).unwrap_or(n.clone());
                    match c {
                        Cond::Id(n) => Cond::Id(f(n)),
                        Cond::All(n) => Cond::All(f(n)),
                        Cond::Of(n, k) => Cond::Of(f(n), *k),
                        Cond::And(a, b) => Cond::and(ren(a, map), ren(b, map)),
                        Cond::Or(a, b) => Cond::or(ren(a, map), ren(b, map)),
                        Cond::Not(a) => Cond::not(ren(a, map)),
                        Cond::Paren(a) => Cond::Paren(Box::new(ren(a, map))),
                        x => x.clone(),
                    }
                }
                ast.cond = ren(&ast.cond, &map);
                for (i, (n, _)) in ast.idents.iter_mut().enumerate() {
                    *n = map[i].1.clone();
                }
            }
            for (_, id) in ast.idents.iter_mut() {
                match id {
                    Ident::Map(es) => sprinkle(&mut rng, es),
                    Ident::Seq(s) => s.iter_mut().for_each(|es| sprinkle(&mut rng, es)),
                }
            }
            let leaves = gen::collect_leaves(&ast);
            ast.tp = (0..rng.below(3)).map(|_| gen::gen_doc(&mut rng, &leaves)).collect();
            ast.tn = (0..rng.below(3)).map(|_| gen::gen_doc(&mut rng, &leaves)).collect();
            // a field literally named like YAML's merge key, in examples and (rarely) in a rule
            if rng.chance(12) {
                let v = if rng.chance(50) { DVal::s("EOF") } else { DVal::obj(vec![("zz", DVal::UInt(1))]) };
                for d in ast.tp.iter_mut().chain(ast.tn.iter_mut()) {
                    d.set("<<", v.clone());
                }
                rep.count("merge_key_examples");
            }
            if rng.chance(4) {
                if let Some((_, Ident::Map(es))) = ast.idents.first_mut() {
                    es.push((Key::plain("<<"), RVal::Str("EOF".into())));
                }
            }
            let Some(text) = ast.to_text() else {
                rep.count("emitter_self_check_failed");
                continue;
            };
            // the deprecated spelling of the string cast, in keys and in the condition
            let text = if text.contains("str(") && rng.chance(30) {
                rep.count("deprecated_string_spelling");
                text.replace("str(", "string(")
            } else {
                text
            };
            let orig_value: Y = serde_yaml::from_str(&text).unwrap();
            let rule = match eng::load(&text) {
                Ok(Load::Ok(r)) => *r,
                _ => {
                    rep.count("rule_rejected");
                    continue;
                }
            };
            rep.count("rules");
            let cls = classes(&ast);
            let docs: Vec<DVal> = (0..ctx.size(6, 10)).map(|_| gen::gen_doc(&mut rng, &leaves)).collect();
            let maps: Vec<serde_yaml::Mapping> = docs.iter().map(to_yaml_map).collect();
            let base: Vec<bool> = maps.iter().map(|m| eng::matches(&rule, m).unwrap_or(false)).collect();
            let orig_parts = detection_parts(&orig_value);
            // from_str vs from_value of the same text
            rep.evaluations += 1;
            match eng::load_value(orig_value.clone()) {
                Ok(Load::Ok(rv)) => {
                    let vv: Vec<bool> = maps.iter().map(|m| eng::matches(&rv, m).unwrap_or(true)).collect();
                    if vv != base || eng::printed(&rv) != eng::printed(&rule) {
                        rep.violation("text-vs-value", "c14-text-vs-value", "Rule::from_str and Rule::from_value of the same YAML disagree", json!({"rule": text}));
                    } else if rv.true_positives != rule.true_positives || rv.true_negatives != rule.true_negatives {
                        rep.violation("text-vs-value", "c14-text-vs-value-examples", "Rule::from_str and Rule::from_value of the same YAML carry different examples", json!({"rule": text}));
                    } else if eng::validate(&rv).ok() != eng::validate(&rule).ok() {
                        rep.violation("text-vs-value", "c14-text-vs-value-validate", "Rule::from_str and Rule::from_value of the same YAML validate differently", json!({"rule": text}));
                    }
                }
                _ => rep.violation("text-vs-value", "c14-text-vs-value-load", "Rule::from_value rejects a rule that Rule::from_str accepts", json!({"rule": text})),
            }
            // text as a person might write it: raw tab characters inside double-quoted scalars
            // (serde_yaml itself always writes the \t escape)
            if text.contains("\\t") {
                let raw = text.replace("\\t", "\t");
                if let Ok(rv) = serde_yaml::from_str::<Y>(&raw) {
                    if yaml_same(&rv, &orig_value) {
                        rep.count("raw_tab_texts");
                        rep.evaluations += 1;
                        match (eng::load(&raw), eng::load_value(rv)) {
                            (Ok(Load::Ok(a)), Ok(Load::Ok(b))) => {
                                let va: Vec<bool> = maps.iter().map(|m| eng::matches(&a, m).unwrap_or(false)).collect();
                                let vb: Vec<bool> = maps.iter().map(|m| eng::matches(&b, m).unwrap_or(true)).collect();
                                if eng::printed(&a) != eng::printed(&b) || va != vb || va != base {
                                    rep.violation("text-vs-value", "c14-text-vs-value-rawtab", "Rule::from_str and Rule::from_value disagree on a text with a raw tab inside a quoted scalar", json!({"rule": raw}));
                                }
                            }
                            (Ok(Load::Ok(_)), _) | (_, Ok(Load::Ok(_))) => rep.violation("text-vs-value", "c14-text-vs-value-load", "only one of from_str / from_value accepts a text with a raw tab inside a quoted scalar", json!({"rule": raw})),
                            _ => {}
                        }
                    }
                }
            }
            for sw in [Sw(0), Sw(15), Sw(1), Sw(2), Sw(10)] {
                let r = if sw.0 == 0 {
                    rule.clone()
                } else {
                    match eng::optimise(&rule, sw) {
                        Ok(r) => r,
                        Err(_) => continue,
                    }
                };
                let ser = match eng::guard(|| serde_yaml::to_string(&r)) {
                    Ok(Ok(s)) => s,
                    Ok(Err(e)) => {
                        rep.violation("serialise", "c14-serialise-err", &format!("serialising a loaded rule fails: {}", e), json!({"rule": text, "switches": sw.0}));
                        continue;
                    }
                    Err(p) => {
                        rep.violation("panic", &format!("panic:{}", p.sig()), &format!("serialising panicked: {}", p.sig()), json!({"rule": text}));
                        continue;
                    }
                };
                rep.evaluations += 1;
                if !cls.is_empty() {
                    rep.nontrivial_key(&format!("{}|{}", cls, sw.0 != 0));
                }
                let case = json!({"rule": text, "serialised": ser, "switches": sw.0, "expected": "load-ok"});
                let back = match eng::load(&ser) {
                    Ok(Load::Ok(b)) => *b,
                    Ok(Load::Err(e)) => {
                        rep.violation("reload", &format!("c14-reload:{}", if sw.0 == 0 { "plain" } else { "optimised" }), &format!("the serialised rule does not load (optimise[{}]): {}", sw.name(), e.chars().take(160).collect::<String>()), case);
                        continue;
                    }
                    Err(p) => {
                        rep.violation("panic", &format!("panic:{}", p.sig()), &format!("reload panicked: {}", p.sig()), case);
                        continue;
                    }
                };
                // same condition, identifiers and examples (as YAML)
                if let (Some(o), Ok(sv)) = (&orig_parts, serde_yaml::from_str::<Y>(&ser)) {
                    if let Some(sp) = detection_parts(&sv) {
                        if let Some(what) = same_parts(o, &sp) {
                            rep.violation("content", &format!("c14-content:{}", what), &format!("round trip changes the {} (optimise[{}])", what, sw.name()), case.clone());
                            continue;
                        }
                    }
                }
                // same printed expressions as the original unoptimised rule, same verdicts
                if eng::printed(&back) != eng::printed(&rule) {
                    rep.violation("expression", "c14-expression", &format!("reloaded rule parses to a different expression (optimise[{}])", sw.name()), case.clone());
                    continue;
                }
                let vb: Vec<bool> = maps.iter().map(|m| eng::matches(&back, m).unwrap_or(false)).collect();
                rep.evaluations += maps.len() as u64;
                if vb != base {
                    rep.violation("verdict", "c14-verdict", &format!("reloaded rule gives different verdicts (optimise[{}])", sw.name()), case.clone());
                }
                // a second trip: the reloaded rule is validated, optimised again with another switch
                // set, serialised and reloaded - still the original rule
                {
                    let _ = eng::validate(&back);
                    let again = eng::optimise(&back, Sw(if sw.0 == 15 { 2 } else { 15 })).unwrap_or_else(|_| back.clone());
                    rep.evaluations += 1;
                    match eng::guard(|| serde_yaml::to_string(&again)).ok().and_then(|r| r.ok()).map(|t| (eng::load(&t), t)) {
                        Some((Ok(Load::Ok(b2)), _)) => {
                            let v2: Vec<bool> = maps.iter().map(|m| eng::matches(&b2, m).unwrap_or(false)).collect();
                            if eng::printed(&b2) != eng::printed(&rule) || v2 != base {
                                rep.violation("second-trip", "c14-second-trip", &format!("after a second optimise/serialise/reload round the rule differs from the original (first optimise[{}])", sw.name()), case.clone());
                            }
                        }
                        Some((_, t)) => rep.violation("second-trip", "c14-second-trip-load", &format!("the rule serialised a second time does not load (first optimise[{}])", sw.name()), json!({"rule": text, "serialised": t, "switches": sw.0, "expected": "load-ok"})),
                        None => rep.violation("second-trip", "c14-second-trip-serialise", "serialising the reloaded rule fails", case.clone()),
                    }
                }
                // the reloaded rule also round-trips through from_value
                if let Ok(sv) = serde_yaml::from_str::<Y>(&ser) {
                    rep.evaluations += 1;
                    match eng::load_value(sv) {
                        Ok(Load::Ok(rv)) => {
                            if eng::printed(&rv) != eng::printed(&back) {
                                rep.violation("text-vs-value", "c14-text-vs-value", "from_str and from_value of the serialised rule disagree", case.clone());
                            }
                        }
                        _ => rep.violation("text-vs-value", "c14-text-vs-value-load", "from_value rejects the serialised rule", case.clone()),
                    }
                }
            }
            if n == 0 && shard < 3 {
                rep.sample(json!({"rule": text, "serialised": serde_yaml::to_string(&rule).unwrap_or_default()}));
            }
        }
        rep
    });
    let mut rep = rep;
    crate::regress::replay_witnesses(ctx, &mut rep);
    finish(
        ctx,
        rep,
        Meta {
            rule: format!("generated rules enriched with {} quoting-sensitive scalars in string positions (patterns, quotes, numbers-as-strings, YAML indicators, empty, non-ASCII), identifier names that look like other YAML kinds, the deprecated `string(` spelling of the cast, examples with nested containers; each rule (unoptimised and after four optimisation switch sets) is serialised with serde_yaml and reloaded: it must load, carry the same condition text / identifier YAML / examples, parse to the same expressions as the original unoptimised rule and give the same verdicts on generated documents; from_str and from_value must agree before and after. non-trivial = rule containing at least one quoting-sensitive scalar; distinct by (set of such scalars, optimised?)", QUOTING.len()),
            exhaustive: false,
            assumptions: vec!["self-comparison of two rules loaded by the same build, no golden text".into()],
            min_nontrivial: 100,
            extra: json!({}),
        },
    )
}
