//! C01 — optimisation never changes a verdict (pure differential monitor: the unoptimised
//! engine is the oracle; verdict = bool only).

use serde_json::json;

use std::collections::BTreeSet;

use crate::ast::*;
use crate::dval::{to_yaml_map, DVal};
use crate::eng::{self, Load, Sw};
use crate::gen::{self, GenCfg};
use crate::mon;
use crate::prng::Rng;
use crate::run::{finish, par_shards, Ctx, Meta, Report};
use crate::shrink::shrink;

/// Does some optimisation of `ast` under `sw` give a verdict different from the unoptimised rule
/// on `doc` (or panic)? Optimises `tries` times because operand order after optimisation varies
/// from call to call (fresh HashMap seeds).
pub fn differs(ast: &RuleAst, doc: &DVal, sw: Sw, tries: usize) -> Option<String> {
    let text = ast.to_text()?;
    let rule = eng::load_ok(&text)?;
    let m = to_yaml_map(doc);
    let base = eng::matches(&rule, &m).ok()?;
    for _ in 0..tries {
        match eng::optimise(&rule, sw) {
            Err(p) => return Some(format!("optimise panicked: {}", p.sig())),
            Ok(o) => match eng::matches(&o, &m) {
                Err(p) => return Some(format!("optimised matches panicked: {}", p.sig())),
                Ok(v) if v != base => return Some(format!("unoptimised={} optimised={}", base, v)),
                _ => {}
            },
        }
    }
    None
}

/// smallest switch set (by inclusion, then by number) that still shows the difference
pub fn minimal_switches(ast: &RuleAst, doc: &DVal, sw: Sw, tries: usize) -> Sw {
    let mut best = sw;
    let mut cands: Vec<Sw> = Sw::ALL16.iter().cloned().filter(|s| s.0 != 0 && s.subset_of(sw)).collect();
    cands.sort_by_key(|s| (s.0.count_ones(), s.0));
    for c in cands {
        if differs(ast, doc, c, tries).is_some() {
            best = c;
            break;
        }
    }
    best
}

pub struct Cfg {
    pub tries: usize,
}

// ---------------------------------------------------------------------------------------------
// Strata (DESIGN 2.3): syntactic triggers of the open findings, computed on the author's AST
// after inlining identifiers and dropping parentheses / single-element groups.

#[derive(Clone, Debug)]
enum Sh {
    Leaf,
    Neg(Box<Sh>),
    Conj(Vec<Sh>),
    Disj(Vec<Sh>),
    /// key-level all()/of(); bool = threshold 0
    Quant(Box<Sh>, bool),
    /// condition-level all(X)/of(X, n); bool = threshold 0
    CQuant(Box<Sh>, bool),
    Nested(Box<Sh>),
}

fn sh_val(v: &RVal) -> Sh {
    match v {
        RVal::Map(es) => Sh::Nested(Box::new(sh_entries(es))),
        RVal::List(ms) => {
            if ms.len() == 1 {
                sh_val(&ms[0])
            } else {
                Sh::Disj(ms.iter().map(sh_val).collect())
            }
        }
        _ => Sh::Leaf,
    }
}

fn sh_entries(es: &Entries) -> Sh {
    let mut v: Vec<Sh> = es
        .iter()
        .map(|(k, val)| {
            let base = sh_val(val);
            match &k.modi {
                KMod::Not => Sh::Neg(Box::new(base)),
                KMod::All => Sh::Quant(Box::new(base), false),
                KMod::Of(n) => Sh::Quant(Box::new(base), *n == 0),
                _ => base,
            }
        })
        .collect();
    if v.len() == 1 {
        v.pop().unwrap()
    } else {
        Sh::Conj(v)
    }
}

fn sh_ident(i: &Ident) -> Sh {
    match i {
        Ident::Map(es) => sh_entries(es),
        Ident::Seq(s) => {
            if s.len() == 1 {
                sh_entries(&s[0])
            } else {
                Sh::Disj(s.iter().map(sh_entries).collect())
            }
        }
    }
}

fn sh_cond(r: &RuleAst, c: &Cond) -> Sh {
    match c {
        Cond::Id(x) => r.ident(x).map(sh_ident).unwrap_or(Sh::Leaf),
        Cond::And(a, b) => Sh::Conj(vec![sh_cond(r, a), sh_cond(r, b)]),
        Cond::Or(a, b) => Sh::Disj(vec![sh_cond(r, a), sh_cond(r, b)]),
        Cond::Not(a) => Sh::Neg(Box::new(sh_cond(r, a))),
        Cond::Paren(a) => sh_cond(r, a),
        Cond::All(x) | Cond::Of(x, _) => {
            let zero = matches!(c, Cond::Of(_, 0));
            match r.ident(x) {
                // shapes the optimiser either cannot restructure or merges completely (then the
                // solver counts per needle): the quantifier is not a trigger
                Some(i) if quantifier_shape_stable(i) => {
                    if zero {
                        Sh::Neg(Box::new(Sh::Leaf))
                    } else if matches!(c, Cond::All(_)) {
                        // all() yields its first non-true member: a conjunction as far as
                        // false-vs-missing under a negation is concerned
                        Sh::Conj(vec![Sh::Leaf, Sh::Leaf])
                    } else {
                        // of(n >= 1) is a count, its non-true result does not depend on order
                        Sh::Leaf
                    }
                }
                Some(i) => Sh::CQuant(Box::new(sh_ident(i)), zero),
                None => Sh::Leaf,
            }
        }
        Cond::Cmp(..) => Sh::Leaf,
    }
}

/// Identifier shapes under a condition-level quantifier that optimisation leaves countable:
/// >= 2 operands, each a single plain-key string pattern, and either all on pairwise distinct
/// fields (nothing can be merged) or all on one field and in one batch class (everything is
/// merged into one automaton / regex set, which match_all / match_of count per needle).
pub fn quantifier_shape_stable(i: &Ident) -> bool {
    use crate::refi::{parse_pattern, PKind};
    let ops: Vec<&(Key, RVal)> = match i {
        Ident::Map(es) => es.iter().collect(),
        Ident::Seq(s) => {
            if s.iter().any(|m| m.len() != 1) {
                return false;
            }
            s.iter().map(|m| &m[0]).collect()
        }
    };
    if ops.len() < 2 {
        return false;
    }
    let mut classes = vec![];
    for (k, v) in &ops {
        if k.modi != KMod::None || k.field.contains('.') || k.field.contains('[') {
            return false;
        }
        let RVal::Str(p) = v else { return false };
        let Ok(pat) = parse_pattern(p, false) else { return false };
        let class = match (&pat.kind, pat.insens) {
            (PKind::Num(..), _) | (PKind::Any, _) => return false,
            (PKind::Exact(x), _) if x.is_empty() => return false,
            (PKind::Regex(_), false) => 2,
            (PKind::Regex(_), true) => 3,
            (_, false) => 0,
            (_, true) => 1,
        };
        classes.push(class);
    }
    let fields: Vec<&String> = ops.iter().map(|(k, _)| &k.field).collect();
    let mut distinct = fields.clone();
    distinct.sort();
    distinct.dedup();
    if distinct.len() == fields.len() {
        return true;
    }
    distinct.len() == 1 && classes.iter().all(|c| *c == classes[0])
}

fn contains_structure(s: &Sh) -> bool {
    match s {
        Sh::Leaf => false,
        Sh::Conj(_) | Sh::Nested(_) | Sh::Quant(..) | Sh::CQuant(..) => true,
        Sh::Neg(a) => contains_structure(a),
        Sh::Disj(v) => v.iter().any(contains_structure),
    }
}

fn sh_triggers(s: &Sh, t: &mut BTreeSet<&'static str>) {
    match s {
        Sh::Leaf => {}
        Sh::Neg(a) => {
            if matches!(**a, Sh::Neg(_)) {
                t.insert("double-negation");
            }
            if contains_structure(a) {
                t.insert("negated-structure");
            }
            sh_triggers(a, t);
        }
        Sh::Quant(a, zero) => {
            if *zero && contains_structure(a) {
                t.insert("negated-structure");
            }
            sh_triggers(a, t);
        }
        Sh::CQuant(a, _) => {
            t.insert("condition-quantifier");
            sh_triggers(a, t);
        }
        Sh::Conj(v) | Sh::Disj(v) => v.iter().for_each(|x| sh_triggers(x, t)),
        Sh::Nested(a) => sh_triggers(a, t),
    }
}

/// Triggers of the open C01 findings present in the rule; empty = stratum S0 (clean).
pub fn triggers(r: &RuleAst) -> BTreeSet<&'static str> {
    let mut t = BTreeSet::new();
    sh_triggers(&sh_cond(r, &r.cond), &mut t);
    t
}

fn ident_is_negation(i: &Ident) -> Option<Ident> {
    let es = match i {
        Ident::Map(es) if es.len() == 1 => es,
        Ident::Seq(s) if s.len() == 1 && s[0].len() == 1 => &s[0],
        _ => return None,
    };
    if es[0].0.modi == KMod::Not {
        Some(Ident::Map(vec![(Key { field: es[0].0.field.clone(), modi: KMod::None }, es[0].1.clone())]))
    } else {
        None
    }
}

/// The rule with every negation pair removed the way shake removes it (`not not X` -> X; with
/// `through_idents`, also `not I` where I is a one-entry identifier keyed `not(k)`).
pub fn strip_double_negations(r: &RuleAst, through_idents: bool) -> RuleAst {
    fn go(c: &Cond, r: &RuleAst, through: bool, extra: &mut Vec<(String, Ident)>) -> Cond {
        match c {
            Cond::Not(a) => {
                let mut inner: &Cond = a;
                while let Cond::Paren(p) = inner {
                    inner = p;
                }
                match inner {
                    Cond::Not(b) => go(b, r, through, extra),
                    Cond::Id(i) if through => match r.ident(i).and_then(ident_is_negation) {
                        Some(pos) => {
                            let name = format!("{}P", i);
                            if !extra.iter().any(|(n, _)| *n == name) {
                                extra.push((name.clone(), pos));
                            }
                            Cond::Id(name)
                        }
                        None => Cond::not(go(a, r, through, extra)),
                    },
                    _ => {
                        let g = go(a, r, through, extra);
                        // the operand may itself have become a negation
                        let mut gi: &Cond = &g;
                        while let Cond::Paren(p) = gi {
                            gi = p;
                        }
                        if let Cond::Not(b) = gi {
                            (**b).clone()
                        } else {
                            Cond::not(g)
                        }
                    }
                }
            }
            Cond::And(a, b) => Cond::and(go(a, r, through, extra), go(b, r, through, extra)),
            Cond::Or(a, b) => Cond::or(go(a, r, through, extra), go(b, r, through, extra)),
            Cond::Paren(a) => Cond::Paren(Box::new(go(a, r, through, extra))),
            x => x.clone(),
        }
    }
    let mut extra = vec![];
    let cond = go(&r.cond, r, through_idents, &mut extra);
    let mut n = r.clone();
    n.cond = cond;
    n.idents.extend(extra);
    n
}

/// `triggers` plus the document-dependent part of the condition-quantifier finding: a same-field
/// identifier that is merged completely is counted per needle *within one value*; when the
/// field holds an array the unoptimised members may be satisfied by different elements (D7 on
/// arrays).
pub fn triggers_on(r: &RuleAst, doc: &DVal) -> BTreeSet<&'static str> {
    let mut trig = triggers(r);
    fn quants(c: &Cond, out: &mut Vec<String>) {
        match c {
            Cond::All(x) | Cond::Of(x, _) => out.push(x.clone()),
            Cond::And(a, b) | Cond::Or(a, b) => {
                quants(a, out);
                quants(b, out);
            }
            Cond::Not(a) | Cond::Paren(a) => quants(a, out),
            _ => {}
        }
    }
    let mut qs = vec![];
    quants(&r.cond, &mut qs);
    for x in qs {
        if let Some(i) = r.ident(&x) {
            if quantifier_shape_stable(i) {
                let fields: Vec<String> = match i {
                    Ident::Map(es) => es.iter().map(|(k, _)| k.field.clone()).collect(),
                    Ident::Seq(ms) => ms.iter().map(|m| m[0].0.field.clone()).collect(),
                };
                if fields.iter().any(|f| fields.iter().filter(|g| *g == f).count() > 1 && matches!(doc.get(f), Some(DVal::Arr(_)))) {
                    trig.insert("condition-quantifier");
                }
            }
        }
    }
    trig
}

/// Sub-rules used for the T-preservation probes: every identifier on its own and every
/// sub-condition, as the whole condition of a rule with the same identifiers.
fn sub_rules(r: &RuleAst) -> Vec<RuleAst> {
    fn subs(c: &Cond, out: &mut Vec<Cond>) {
        out.push(c.clone());
        match c {
            Cond::And(a, b) | Cond::Or(a, b) => {
                subs(a, out);
                subs(b, out);
            }
            Cond::Not(a) | Cond::Paren(a) => subs(a, out),
            _ => {}
        }
    }
    let mut conds = vec![];
    subs(&r.cond, &mut conds);
    for (n, _) in &r.idents {
        conds.push(Cond::Id(n.clone()));
    }
    conds
        .into_iter()
        .map(|c| {
            let mut n = r.clone();
            n.cond = c;
            n
        })
        .collect()
}

pub fn check_rule(rep: &mut Report, ast: &RuleAst, text: &str, docs: &[DVal], cfg: &Cfg) {
    let rule = match eng::load(text) {
        Ok(Load::Ok(r)) => *r,
        Ok(Load::Err(_)) => {
            rep.count("load_rejected");
            return;
        }
        Err(_) => {
            rep.count("load_panicked");
            return;
        }
    };
    rep.count("rules_loaded");
    rep.count(if triggers(ast).is_empty() { "stratum.S0_rules" } else { "stratum.S1_rules" });
    let maps: Vec<serde_yaml::Mapping> = docs.iter().map(to_yaml_map).collect();
    let mut base = vec![];
    for m in &maps {
        match eng::matches(&rule, m) {
            Ok(v) => base.push(v),
            Err(_) => {
                rep.count("unoptimised_panicked");
                return;
            }
        }
    }
    let both = base.iter().any(|b| *b) && base.iter().any(|b| !*b);
    let printed0 = eng::printed(&rule);
    let tagk = gen::tag_key(&gen::tags(ast));
    for sw in Sw::ALL16.iter().skip(1) {
        let mut reported = false;
        for t in 0..cfg.tries {
            let o = match eng::optimise(&rule, *sw) {
                Ok(o) => o,
                Err(p) => {
                    if !reported {
                        reported = true;
                        report(rep, ast, text, &docs[0], *sw, cfg, &format!("optimise panicked: {}", p.sig()));
                    }
                    continue;
                }
            };
            let changed = eng::printed(&o) != printed0;
            if t == 0 {
                rep.count(if changed { "optimisation_changed_tree" } else { "optimisation_left_tree_unchanged" });
            }
            for (i, m) in maps.iter().enumerate() {
                rep.evaluations += 1;
                match eng::matches(&o, m) {
                    Ok(v) => {
                        if v != base[i] && !reported {
                            reported = true;
                            report(rep, ast, text, &docs[i], *sw, cfg, &format!("unoptimised={} optimised={}", base[i], v));
                        }
                        if changed && both {
                            rep.nontrivial_key(&format!("{}|{}|{}", tagk, sw.0, v));
                        }
                    }
                    Err(p) => {
                        if !reported {
                            reported = true;
                            report(rep, ast, text, &docs[i], *sw, cfg, &format!("optimised matches panicked: {}", p.sig()));
                        }
                    }
                }
            }
        }
    }
}

fn report(rep: &mut Report, ast: &RuleAst, text: &str, doc: &DVal, sw: Sw, cfg: &Cfg, first: &str) {
    let tries = cfg.tries.max(4);
    let is_panic = first.contains("panicked");
    let (sr, sd) = shrink(ast, doc, 250, &mut |r, d| match differs(r, d, sw, tries) {
        Some(w) => w.contains("panicked") == is_panic,
        None => false,
    });
    let msw = minimal_switches(&sr, &sd, sw, tries);
    let what = differs(&sr, &sd, msw, tries * 2).unwrap_or_else(|| first.to_string());
    let st = sr.to_text().unwrap_or_else(|| text.to_string());
    let tagk = gen::tag_key(&gen::tags(&sr));
    let trig = triggers_on(&sr, &sd);
    let mk_case = |extra: serde_json::Value| {
        mon::case(&st, &sd, Some(msw), json!("same verdict as unoptimised"), json!(what), json!({"original_rule": text, "original_doc": doc.to_json_text(), "found_with_switches": sw.name(), "triggers": trig.iter().cloned().collect::<Vec<_>>(), "stratum": extra}))
    };
    if is_panic {
        let site = what.split(": ").nth(1).unwrap_or("").to_string();
        rep.violation("optimise-panic", &format!("c01-panic:{}", site), &format!("{} with switches [{}] (minimal: [{}]); shrunk rule tags: {}", what, sw.name(), msw.name(), tagk), mk_case(json!("panic")));
        return;
    }
    // stratum S0: no trigger of an open finding -> unconditional violation
    if trig.is_empty() {
        rep.count("S0_disagreements");
        rep.violation("verdict-differs", &format!("c01:S0:{}:{}", msw.name(), tagk), &format!("{} with switches [{}] (minimal: [{}]); rule contains no trigger of a known finding; shrunk rule tags: {}", what, sw.name(), msw.name(), tagk), mk_case(json!("S0")));
        return;
    }
    // stratum S1, precondition (a): every open finding needs shake or matrix
    if !msw.shake() && !msw.matrix() {
        rep.violation("verdict-differs", &format!("c01:S1-switches:{}:{}", msw.name(), tagk), &format!("{} with switches [{}] only (no open finding explains a difference without shake or matrix); shrunk rule tags: {}", what, msw.name(), tagk), mk_case(json!("S1-precondition")));
        return;
    }
    // (c) T-preservation: every trigger-free sub-rule of the original rule must be preserved
    for sub in sub_rules(ast) {
        if !triggers_on(&sub, doc).is_empty() {
            continue;
        }
        rep.count("t_preservation_probes");
        if let Some(w) = differs(&sub, doc, sw, tries) {
            let subt = sub.to_text().unwrap_or_default();
            rep.violation(
                "verdict-differs",
                &format!("c01:S1-tpres:{}", gen::tag_key(&gen::tags(&sub))),
                &format!("T-preservation broken: trigger-free sub-rule differs ({}) with switches [{}]", w, sw.name()),
                mon::case(&subt, doc, Some(sw), json!("same verdict as unoptimised"), json!(w), json!({"parent_rule": text})),
            );
            return;
        }
    }
    // the double-negation finding has an exact model (shake removes the pair): when that is the
    // only trigger, the optimised verdict must be what the rule without the pair gives
    // unoptimised - anything else is not D5
    if trig.len() == 1 && trig.contains("double-negation") && msw.shake() {
        let stripped = strip_double_negations(&sr, msw.coalesce());
        if stripped != sr && triggers(&stripped).is_empty() {
            rep.count("dneg_model_checks");
            let want = stripped.to_text().and_then(|t| eng::load_ok(&t)).and_then(|r| eng::matches(&r, &to_yaml_map(&sd)).ok());
            let got: Option<bool> = sr.to_text().and_then(|t| eng::load_ok(&t)).and_then(|r| eng::optimise(&r, msw).ok()).and_then(|o| eng::matches(&o, &to_yaml_map(&sd)).ok());
            if want.is_some() && got != want {
                rep.violation(
                    "verdict-differs",
                    &format!("c01:S1-dneg-model:{}", tagk),
                    &format!("{} with switches [{}]: the rule's only trigger is a double negation, but the optimised verdict {:?} is not what the rule without the pair gives ({:?})", what, msw.name(), got, want),
                    mk_case(json!("S1-dneg-model")),
                );
                return;
            }
        }
    }
    // the negated-structure finding has an envelope model: shake reorders / regroups the
    // operands of conjunctions, so under the negation the non-true result may be that of ANY
    // operand instead of the first; the optimised verdict must be one the rule language allows
    // for some ordering of its conjunctions (set-valued reference interpreter, order-free mode)
    if trig.len() == 1 && trig.contains("negated-structure") && !msw.matrix() {
        let free = crate::refi::Ref { icase_build: false, order_free: true, group_quant: false }.eval_rule(&sr, &sd);
        let got: Option<bool> = sr.to_text().and_then(|t| eng::load_ok(&t)).and_then(|r| eng::optimise(&r, msw).ok()).and_then(|o| eng::matches(&o, &to_yaml_map(&sd)).ok());
        rep.count("negstruct_model_checks");
        match (crate::refi::verdict(free), got) {
            (Some(w), Some(g)) if w != g => {
                rep.violation(
                    "verdict-differs",
                    &format!("c01:S1-negstruct-model:{}", tagk),
                    &format!("{} with switches [{}]: the rule's only trigger is a negated structure, but the optimised verdict {} is not one that any ordering of the rule's conjunctions gives (envelope {})", what, msw.name(), g, crate::refi::ts_name(free)),
                    mk_case(json!("S1-negstruct-model")),
                );
                return;
            }
            // (a definite envelope that agrees cannot occur here: the unoptimised verdict lies
            // inside the envelope and differs from the optimised one)
            _ => {}
        }
    }
    // the condition-quantifier finding has an envelope model too: the optimiser may merge the
    // operands of X that address one field into one child, so all(X) / of(X, n) may count per
    // field instead of per entry (or anything in between); the optimised verdict must be one
    // that some such counting gives
    if trig.len() == 1 && trig.contains("condition-quantifier") {
        let env = crate::refi::Ref { icase_build: false, order_free: true, group_quant: true }.eval_rule(&sr, &sd);
        let got: Option<bool> = sr.to_text().and_then(|t| eng::load_ok(&t)).and_then(|r| eng::optimise(&r, msw).ok()).and_then(|o| eng::matches(&o, &to_yaml_map(&sd)).ok());
        rep.count("cquant_model_checks");
        if let (Some(w), Some(g)) = (crate::refi::verdict(env), got) {
            if w != g {
                rep.violation(
                    "verdict-differs",
                    &format!("c01:S1-cquant-model:{}", tagk),
                    &format!("{} with switches [{}]: the rule's only trigger is a condition-level quantifier, but the optimised verdict {} is given neither by counting per entry nor by counting per field (envelope {})", what, msw.name(), g, crate::refi::ts_name(env)),
                    mk_case(json!("S1-cquant-model")),
                );
                return;
            }
        }
    }
    let pri = ["double-negation", "condition-quantifier", "negated-structure"];
    let which = pri.iter().find(|p| trig.contains(**p)).unwrap();
    rep.count(&format!("S1_attributed.{}", which));
    rep.violation("known", &format!("c01-known:{}", which), &format!("{} with switches [{}] (minimal [{}]); attributed to open finding '{}'", what, sw.name(), msw.name(), which), mk_case(json!("S1")));
}

/// a condition-level quantifier over an identifier of a stable shape (see
/// `quantifier_shape_stable`): these reach the optimised per-needle counting arms (merged
/// automaton / regex set under all()/of()) inside the clean stratum
fn stable_quantifier_rule(rng: &mut Rng, cfg: &GenCfg) -> RuleAst {
    let k = 2 + rng.below(4);
    let same_field = rng.chance(65);
    let class = rng.below(4);
    let mut ops: Entries = vec![];
    for i in 0..k {
        let w = loop {
            let w = gen::word(rng);
            if !w.is_empty() {
                break w;
            }
        };
        let body = match class {
            0 | 1 => match rng.below(4) {
                0 => w,
                1 => format!("{}*", w),
                2 => format!("*{}", w),
                _ => format!("*{}*", w),
            },
            _ => format!("?{}", rng.pick(gen::REGEXES)),
        };
        let pat = if class == 1 || class == 3 { format!("i{}", body) } else { body };
        let f = if same_field { "a".to_string() } else { ["a", "b", "c", "d", "num", "flag"][i].to_string() };
        ops.push((Key::plain(&f), RVal::Str(pat)));
    }
    let x = if rng.chance(70) || same_field { Ident::Seq(ops.iter().map(|e| vec![e.clone()]).collect()) } else { Ident::Map(ops) };
    let q = if rng.chance(35) { Cond::All("X".into()) } else { Cond::Of("X".into(), 1 + rng.below(k) as u64) };
    let mut idents = vec![("X".to_string(), x)];
    let cond = if rng.chance(50) {
        idents.push(("Y".to_string(), gen::gen_ident(rng, &GenCfg { key_quant: false, ..cfg.clone() })));
        if rng.chance(50) {
            Cond::and(q, Cond::id("Y"))
        } else {
            Cond::or(Cond::id("Y"), q)
        }
    } else {
        q
    };
    RuleAst { idents, cond, tp: vec![], tn: vec![] }
}

pub fn run(ctx: &Ctx) -> i32 {
    let shards = ctx.size(64, 1024);
    let rules_per_shard = ctx.size(500, 1500);
    let docs_per_rule = ctx.size(8, 12);
    let cfg = Cfg { tries: ctx.size(3, 8) };
    let rep = par_shards(ctx, shards, |shard| {
        let mut rep = Report::new();
        let mut rng = Rng::new(ctx.seed, "C01", shard as u64);
        let mut gcfg = GenCfg::default();
        gcfg.share_fields = 70;
        for n in 0..rules_per_shard {
            if ctx.expired() {
                rep.truncated = true;
                break;
            }
            // three quarters of the slots insist on a rule from the clean stratum S0
            let want_s0 = rng.chance(78);
            // (one slot in 400: an or-group over 120..210 fields, i.e. a matrix with more columns
            // than one byte can number)
            let wide = n % 400 == 137 && (shard % 8 == 0 || !ctx.quick());
            let mut ast = match rng.below(100) {
                _ if wide => gen::wide_matrix_rule(&mut rng),
                0..=9 => stable_quantifier_rule(&mut rng, &gcfg),
                // one field with and without casts in one disjunction
                18..=22 => gen::cast_mix_rule(&mut rng),
                // blocks over one field in several identifiers (merged by coalesce + shake)
                10..=17 => gen::nested_family_rule(&mut rng, &gcfg),
                _ => gen::gen_rule(&mut rng, &gcfg),
            };
            if want_s0 {
                for _ in 0..12 {
                    if triggers(&ast).is_empty() {
                        break;
                    }
                    ast = gen::gen_rule(&mut rng, &gcfg);
                }
            }
            let Some(text) = ast.to_text() else {
                rep.count("emitter_self_check_failed");
                continue;
            };
            let leaves = gen::collect_leaves(&ast);
            let mut docs: Vec<DVal> = (0..docs_per_rule).map(|_| gen::gen_doc(&mut rng, &leaves)).collect();
            if wide {
                // documents that satisfy exactly one block (early, middle, last): the verdict
                // hangs on one late column
                if let Some((_, Ident::Seq(blocks))) = ast.idents.first() {
                    for bi in [0, blocks.len() / 2, blocks.len() - 2, blocks.len() - 1] {
                        let fields: Vec<(String, DVal)> = blocks[bi]
                            .iter()
                            .map(|(k, v)| (k.field.clone(), match v { RVal::Str(s) => DVal::Str(s.trim_end_matches('*').to_string()), _ => DVal::Null }))
                            .collect();
                        docs.push(DVal::Obj(fields));
                    }
                }
                rep.count("wide_matrix_rules");
            }
            check_rule(&mut rep, &ast, &text, &docs, &cfg);
            if n == 0 && shard < 3 {
                rep.sample(json!({"rule": text, "doc": docs[0].to_json_text(), "switch_sets": 15, "optimisations_per_switch_set": cfg.tries}));
            }
        }
        rep
    });
    let mut rep = rep;
    // the repository's own rule files x generated documents and their own (mutated) examples
    {
        let mut rng = Rng::new(ctx.seed, "C01-corpus", 0);
        for cr in crate::corpus::load() {
            let Some(ast) = &cr.ast else {
                rep.count("corpus.not_covered_by_harness_reader");
                continue;
            };
            rep.count("corpus.rules");
            let leaves = gen::collect_leaves(ast);
            let mut docs: Vec<DVal> = ast.tp.iter().chain(ast.tn.iter()).cloned().collect();
            for _ in 0..ctx.size(40, 400) {
                docs.push(gen::gen_doc(&mut rng, &leaves));
            }
            // the emitted text of the harness's reading (not the file) so that shrinking works
            if let Some(text) = ast.to_text() {
                check_rule(&mut rep, ast, &text, &docs, &cfg);
            }
        }
    }
    crate::regress::replay_witnesses(ctx, &mut rep);
    let (s0, s1) = (rep.get("stratum.S0_rules"), rep.get("stratum.S1_rules"));
    if s0 * 10 < (s0 + s1) * 7 {
        rep.inconclusive.push(format!("clean stratum S0 is only {} of {} rules (< 70%)", s0, s0 + s1));
    }
    finish(
        ctx,
        rep,
        Meta {
            rule: "grammar-directed random rules x the 15 non-empty optimisation switch sets (each optimised several times from a fresh clone, because merge maps are iterated in hash order) x rule-aware documents; verdict of the optimised rule compared with the unoptimised rule (bool only). non-trivial = the optimisation changed the printed tree and the document set produced both verdicts; distinct by (rule feature-tag set, switch set, verdict)".into(),
            exhaustive: false,
            assumptions: vec!["the unoptimised engine is the oracle (its own correctness is C02's subject)".into()],
            min_nontrivial: 50,
            extra: json!({}),
        },
    )
}
