//! What the rule author wrote: identifiers, condition, examples — and emitters to YAML.

use crate::dval::{to_yaml, DVal};
use serde_yaml::Value as Y;

#[derive(Clone, Debug, PartialEq)]
pub enum KMod {
    None,
    Not,
    Int,
    Flt,
    Str,
    All,
    Of(u64),
}

#[derive(Clone, Debug, PartialEq)]
pub struct Key {
    pub field: String,
    pub modi: KMod,
}
impl Key {
    pub fn plain(f: &str) -> Key {
        Key { field: f.to_string(), modi: KMod::None }
    }
    pub fn with(f: &str, m: KMod) -> Key {
        Key { field: f.to_string(), modi: m }
    }
    pub fn text(&self) -> String {
        match &self.modi {
            KMod::None => self.field.clone(),
            KMod::Not => format!("not({})", self.field),
            KMod::Int => format!("int({})", self.field),
            KMod::Flt => format!("flt({})", self.field),
            KMod::Str => format!("str({})", self.field),
            KMod::All => format!("all({})", self.field),
            KMod::Of(n) => format!("of({}, {})", self.field, n),
        }
    }
}

/// A value as written in an identifier.
#[derive(Clone, Debug, PartialEq)]
pub enum RVal {
    Str(String),
    Int(i64),
    Float(f64),
    Bool(bool),
    Null,
    List(Vec<RVal>),
    Map(Vec<(Key, RVal)>),
}

pub type Entries = Vec<(Key, RVal)>;

#[derive(Clone, Debug, PartialEq)]
pub enum Ident {
    Map(Entries),
    Seq(Vec<Entries>),
}

#[derive(Clone, Copy, Debug, PartialEq, Eq, Hash)]
pub enum CastK {
    Int,
    Flt,
    Str,
}
impl CastK {
    pub fn name(&self) -> &'static str {
        match self {
            CastK::Int => "int",
            CastK::Flt => "flt",
            CastK::Str => "str",
        }
    }
}

#[derive(Clone, Debug, PartialEq)]
pub enum Opnd {
    Int(i64),
    Flt(f64),
    Cast(CastK, String),
}
impl Opnd {
    pub fn text(&self) -> String {
        match self {
            Opnd::Int(i) => format!("{}", i),
            Opnd::Flt(f) => fmt_float(*f),
            Opnd::Cast(k, f) => format!("{}({})", k.name(), f),
        }
    }
}

/// Decimal text with a '.', no exponent (the tokeniser knows digits, '-' and '.').
pub fn fmt_float(f: f64) -> String {
    let s = format!("{:?}", f);
    if s.contains('e') || s.contains("inf") || s.contains("NaN") {
        // fall back to plain positional notation
        let s = format!("{:.1}", f);
        return s;
    }
    s
}

#[derive(Clone, Copy, Debug, PartialEq, Eq, Hash)]
pub enum CmpOp {
    Eq,
    Gt,
    Ge,
    Lt,
    Le,
}
impl CmpOp {
    pub fn cond_text(&self) -> &'static str {
        match self {
            CmpOp::Eq => "==",
            CmpOp::Gt => ">",
            CmpOp::Ge => ">=",
            CmpOp::Lt => "<",
            CmpOp::Le => "<=",
        }
    }
    pub fn pat_text(&self) -> &'static str {
        match self {
            CmpOp::Eq => "=",
            CmpOp::Gt => ">",
            CmpOp::Ge => ">=",
            CmpOp::Lt => "<",
            CmpOp::Le => "<=",
        }
    }
    pub const ALL: [CmpOp; 5] = [CmpOp::Eq, CmpOp::Gt, CmpOp::Ge, CmpOp::Lt, CmpOp::Le];
}

#[derive(Clone, Debug, PartialEq)]
pub enum Cond {
    Id(String),
    And(Box<Cond>, Box<Cond>),
    Or(Box<Cond>, Box<Cond>),
    Not(Box<Cond>),
    Paren(Box<Cond>),
    All(String),
    Of(String, u64),
    Cmp(Opnd, CmpOp, Opnd),
}

impl Cond {
    pub fn id(s: &str) -> Cond {
        Cond::Id(s.to_string())
    }
    pub fn and(a: Cond, b: Cond) -> Cond {
        Cond::And(Box::new(a), Box::new(b))
    }
    pub fn or(a: Cond, b: Cond) -> Cond {
        Cond::Or(Box::new(a), Box::new(b))
    }
    pub fn not(a: Cond) -> Cond {
        Cond::Not(Box::new(a))
    }
    /// Conservative text: every binary operand that is itself binary is parenthesised, so the
    /// text does not rely on and/or precedence or associativity (those are C05's subject).
    pub fn text(&self) -> String {
        fn side(c: &Cond) -> String {
            match c {
                Cond::And(..) | Cond::Or(..) => format!("({})", c.text()),
                _ => c.text(),
            }
        }
        match self {
            Cond::Id(s) => s.clone(),
            Cond::And(a, b) => format!("{} and {}", side(a), side(b)),
            Cond::Or(a, b) => format!("{} or {}", side(a), side(b)),
            Cond::Not(a) => match &**a {
                Cond::And(..) | Cond::Or(..) | Cond::Cmp(..) => format!("not ({})", a.text()),
                _ => format!("not {}", a.text()),
            },
            Cond::Paren(a) => format!("({})", a.text()),
            Cond::All(x) => format!("all({})", x),
            Cond::Of(x, n) => format!("of({}, {})", x, n),
            Cond::Cmp(l, o, r) => format!("{} {} {}", l.text(), o.cond_text(), r.text()),
        }
    }
    pub fn idents(&self, out: &mut Vec<String>) {
        match self {
            Cond::Id(s) | Cond::All(s) | Cond::Of(s, _) => out.push(s.clone()),
            Cond::And(a, b) | Cond::Or(a, b) => {
                a.idents(out);
                b.idents(out);
            }
            Cond::Not(a) | Cond::Paren(a) => a.idents(out),
            Cond::Cmp(..) => {}
        }
    }
    pub fn cast_fields(&self, out: &mut Vec<String>) {
        match self {
            Cond::And(a, b) | Cond::Or(a, b) => {
                a.cast_fields(out);
                b.cast_fields(out);
            }
            Cond::Not(a) | Cond::Paren(a) => a.cast_fields(out),
            Cond::Cmp(l, _, r) => {
                for o in [l, r] {
                    if let Opnd::Cast(_, f) = o {
                        out.push(f.clone());
                    }
                }
            }
            _ => {}
        }
    }
    pub fn size(&self) -> usize {
        match self {
            Cond::And(a, b) | Cond::Or(a, b) => 1 + a.size() + b.size(),
            Cond::Not(a) | Cond::Paren(a) => 1 + a.size(),
            _ => 1,
        }
    }
}

#[derive(Clone, Debug, PartialEq)]
pub struct RuleAst {
    pub idents: Vec<(String, Ident)>,
    pub cond: Cond,
    pub tp: Vec<DVal>,
    pub tn: Vec<DVal>,
}

impl RuleAst {
    pub fn ident(&self, name: &str) -> Option<&Ident> {
        self.idents.iter().find(|(n, _)| n == name).map(|(_, i)| i)
    }
}

pub fn rval_yaml(v: &RVal) -> Y {
    match v {
        RVal::Str(s) => Y::String(s.clone()),
        RVal::Int(i) => Y::Number((*i).into()),
        RVal::Float(f) => Y::Number((*f).into()),
        RVal::Bool(b) => Y::Bool(*b),
        RVal::Null => Y::Null,
        RVal::List(l) => Y::Sequence(l.iter().map(rval_yaml).collect()),
        RVal::Map(m) => entries_yaml(m),
    }
}

pub fn entries_yaml(es: &Entries) -> Y {
    let mut m = serde_yaml::Mapping::new();
    for (k, v) in es {
        m.insert(Y::String(k.text()), rval_yaml(v));
    }
    Y::Mapping(m)
}

pub fn ident_yaml(i: &Ident) -> Y {
    match i {
        Ident::Map(es) => entries_yaml(es),
        Ident::Seq(s) => Y::Sequence(s.iter().map(entries_yaml).collect()),
    }
}

/// Number of keys that collapse when written into one YAML mapping (duplicate key text): the
/// emitter cannot express those, the generator must avoid them.
pub fn has_duplicate_keys(es: &Entries) -> bool {
    let mut seen = std::collections::HashSet::new();
    for (k, v) in es {
        if !seen.insert(k.text()) {
            return true;
        }
        if let RVal::Map(m) = v {
            if has_duplicate_keys(m) {
                return true;
            }
        }
        if let RVal::List(l) = v {
            for x in l {
                if let RVal::Map(m) = x {
                    if has_duplicate_keys(m) {
                        return true;
                    }
                }
            }
        }
    }
    false
}

impl RuleAst {
    pub fn to_yaml_value(&self) -> Y {
        let mut det = serde_yaml::Mapping::new();
        for (n, i) in &self.idents {
            det.insert(Y::String(n.clone()), ident_yaml(i));
        }
        det.insert(Y::String("condition".into()), Y::String(self.cond.text()));
        let mut root = serde_yaml::Mapping::new();
        root.insert(Y::String("detection".into()), Y::Mapping(det));
        root.insert(Y::String("true_positives".into()), Y::Sequence(self.tp.iter().map(to_yaml).collect()));
        root.insert(Y::String("true_negatives".into()), Y::Sequence(self.tn.iter().map(to_yaml).collect()));
        Y::Mapping(root)
    }

    /// YAML text, self-checked: the text must parse back (with serde_yaml) to the intended value.
    /// `None` means the *emitter* could not express the rule faithfully (a generator error that is
    /// counted, never a violation).
    pub fn to_text(&self) -> Option<String> {
        let v = self.to_yaml_value();
        let text = serde_yaml::to_string(&v).ok()?;
        let back: Y = serde_yaml::from_str(&text).ok()?;
        if yaml_same(&back, &v) {
            Some(text)
        } else {
            None
        }
    }
}

pub fn yaml_same(a: &Y, b: &Y) -> bool {
    match (a, b) {
        (Y::Number(x), Y::Number(y)) => {
            if x.is_f64() && y.is_f64() {
                let (p, q) = (x.as_f64().unwrap(), y.as_f64().unwrap());
                (p.is_nan() && q.is_nan()) || p == q
            } else {
                x == y
            }
        }
        (Y::Sequence(x), Y::Sequence(y)) => x.len() == y.len() && x.iter().zip(y).all(|(p, q)| yaml_same(p, q)),
        (Y::Mapping(x), Y::Mapping(y)) => {
            x.len() == y.len() && x.iter().zip(y.iter()).all(|((k1, v1), (k2, v2))| yaml_same(k1, k2) && yaml_same(v1, v2))
        }
        (x, y) => x == y,
    }
}

// ---------------------------------------------------------------------------------------------
// The harness's own reading of a rule's YAML (used for the repository's rule files): independent
// of the engine's key tokeniser and identifier parser.

/// `all(k)`, `of(k, n)`, `not(k)`, `int(k)`, `flt(k)`, `str(k)` / `string(k)`, or a plain field
pub fn parse_key(text: &str) -> Option<Key> {
    let t = text.trim();
    for (name, m) in [("all", KMod::All), ("not", KMod::Not), ("int", KMod::Int), ("flt", KMod::Flt), ("str", KMod::Str), ("string", KMod::Str)] {
        if let Some(rest) = t.strip_prefix(name).and_then(|r| r.strip_prefix('(')) {
            let inner = rest.strip_suffix(')')?;
            if inner.contains('(') || inner.contains(')') || inner.contains(',') {
                return None;
            }
            return Some(Key { field: inner.trim().to_string(), modi: m });
        }
    }
    if let Some(rest) = t.strip_prefix("of(") {
        let inner = rest.strip_suffix(')')?;
        let (f, n) = inner.rsplit_once(',')?;
        let n: u64 = n.trim().parse().ok()?;
        return Some(Key { field: f.trim().to_string(), modi: KMod::Of(n) });
    }
    if t.is_empty() || t.contains('(') || t.contains(')') || t.contains(',') {
        return None;
    }
    // a plain key names the field exactly as written
    Some(Key::plain(text))
}

fn rval_from_yaml(v: &Y, in_list: bool) -> Option<RVal> {
    Some(match v {
        Y::String(s) => RVal::Str(s.clone()),
        Y::Bool(b) => RVal::Bool(*b),
        Y::Null => RVal::Null,
        Y::Number(n) => {
            if let Some(i) = n.as_i64() {
                RVal::Int(i)
            } else if n.is_u64() {
                return None;
            } else {
                RVal::Float(n.as_f64()?)
            }
        }
        Y::Mapping(m) => RVal::Map(entries_from_yaml(m)?),
        Y::Sequence(s) => {
            if in_list {
                return None;
            }
            RVal::List(s.iter().map(|x| rval_from_yaml(x, true)).collect::<Option<Vec<_>>>()?)
        }
        Y::Tagged(_) => return None,
    })
}

fn entries_from_yaml(m: &serde_yaml::Mapping) -> Option<Entries> {
    let mut out = vec![];
    for (k, v) in m {
        out.push((parse_key(k.as_str()?)?, rval_from_yaml(v, false)?));
    }
    Some(out)
}

/// Parse a rule's YAML value into the author's AST; None when the harness's reader does not
/// cover the shape (counted, never a verdict).
pub fn rule_from_yaml(v: &Y, parse_cond: &dyn Fn(&str) -> Option<Cond>) -> Option<RuleAst> {
    let det = v.get("detection")?.as_mapping()?;
    let mut idents = vec![];
    let mut cond = None;
    for (k, val) in det {
        let name = k.as_str()?;
        if name == "condition" {
            cond = parse_cond(val.as_str()?);
            continue;
        }
        let id = match val {
            Y::Mapping(m) => Ident::Map(entries_from_yaml(m)?),
            Y::Sequence(s) => Ident::Seq(s.iter().map(|x| x.as_mapping().and_then(entries_from_yaml)).collect::<Option<Vec<_>>>()?),
            _ => return None,
        };
        idents.push((name.to_string(), id));
    }
    let docs = |key: &str| -> Vec<DVal> { v.get(key).and_then(|x| x.as_sequence()).map(|s| s.iter().map(crate::dval::from_yaml).collect()).unwrap_or_default() };
    Some(RuleAst { idents, cond: cond?, tp: docs("true_positives"), tn: docs("true_negatives") })
}
