//! C13 — validate() agrees with matches() on the rule's own examples.

use serde_json::json;
use serde_yaml::Value as Y;

use crate::dval::{to_yaml, to_yaml_map, DVal};
use crate::eng::{self, Load, Sw};
use crate::gen::{self, GenCfg};
use crate::prng::Rng;
use crate::run::{finish, par_shards, Ctx, Meta, Report};

fn marker(side: &str, i: usize, salt: u64) -> String {
    format!("<<{}{}#{:x}>>", side, i, salt & 0xffff)
}

pub fn run(ctx: &Ctx) -> i32 {
    let shards = ctx.size(64, 512);
    let per = ctx.size(300, 2500);
    let rep = par_shards(ctx, shards, |shard| {
        let mut rep = Report::new();
        let mut rng = Rng::new(ctx.seed, "C13", shard as u64);
        let cfg = GenCfg::default();
        for n in 0..per {
            if ctx.expired() {
                rep.truncated = true;
                break;
            }
            let mut ast = gen::gen_rule(&mut rng, &cfg);
            let leaves = gen::collect_leaves(&ast);
            let salt = rng.next();
            // examples: matching / non-matching / empty mappings, each with a unique marker in a
            // field no predicate addresses
            let mk = |rng: &mut Rng, side: &str, i: usize| -> DVal {
                let mut d = if rng.chance(12) { DVal::Obj(vec![]) } else { gen::gen_doc(rng, &leaves) };
                if rng.chance(12) {
                    // an example written with a YAML merge key: the stored mapping has a literal
                    // `<<` entry and none of the fields inside it (matches() sees them as absent)
                    if let DVal::Obj(es) = &mut d {
                        let n = es.len();
                        let keep = if n == 0 { 0 } else { rng.below(n) };
                        let moved: Vec<(String, DVal)> = es.drain(keep..).collect();
                        let merged = if rng.chance(30) && moved.len() >= 2 {
                            let (a, b) = moved.split_at(moved.len() / 2);
                            DVal::Arr(vec![DVal::Obj(a.to_vec()), DVal::Obj(b.to_vec())])
                        } else {
                            DVal::Obj(moved)
                        };
                        es.push(("<<".to_string(), merged));
                    }
                }
                if rng.chance(5) {
                    // a truly empty example (no marker): a rule built from negations may well be
                    // true on it
                    return DVal::Obj(vec![]);
                }
                d.set("__marker", DVal::Str(marker(side, i, salt)));
                d
            };
            let ntp = rng.below(4);
            let ntn = rng.below(4);
            ast.tp = (0..ntp).map(|i| mk(&mut rng, "P", i)).collect();
            ast.tn = (0..ntn).map(|i| mk(&mut rng, "N", i)).collect();
            // sometimes the identical document sits in both lists, or twice in one list
            if rng.chance(25) && !ast.tp.is_empty() {
                let d = ast.tp[rng.below(ast.tp.len())].clone();
                ast.tn.push(d);
            }
            if rng.chance(10) && !ast.tn.is_empty() {
                let d = ast.tn[0].clone();
                ast.tn.push(d);
            }
            // and sometimes many examples (errors must still name each one)
            if rng.chance(8) {
                for i in 0..8 {
                    ast.tn.push(mk(&mut rng, "M", i));
                }
            }
            let mut v = ast.to_yaml_value();
            // malformed entries (separate stream)
            let mut malformed: Vec<(&str, usize)> = vec![];
            if rng.chance(25) {
                for k in ["true_positives", "true_negatives"] {
                    if rng.chance(60) {
                        if let Some(Y::Sequence(s)) = v.get_mut(k) {
                            let bad = match rng.below(5) {
                                0 => Y::Null,
                                1 => Y::Number(7.into()),
                                2 => Y::String("not a mapping".into()),
                                3 => Y::Sequence(vec![to_yaml(&DVal::Obj(vec![]))]),
                                _ => Y::Bool(false),
                            };
                            let at = rng.below(s.len() + 1);
                            s.insert(at, bad);
                            malformed.push((k, at));
                        }
                    }
                }
            }
            let Ok(text) = serde_yaml::to_string(&v) else { continue };
            let rule = match eng::load(&text) {
                Ok(Load::Ok(r)) => *r,
                _ => {
                    rep.count("rule_rejected");
                    continue;
                }
            };
            rep.count("rules");
            for sw in [Sw(0), Sw(15), Sw(2), Sw(9), Sw(6)] {
                let r = if sw.0 == 0 {
                    rule.clone()
                } else {
                    match eng::optimise(&rule, sw) {
                        Ok(r) => r,
                        Err(_) => continue,
                    }
                };
                // what matches() says about each well-formed example
                let mut failing: Vec<String> = vec![];
                let mut passing: Vec<String> = vec![];
                let mut pattern = String::new();
                for (side, list, want) in [("P", &r.true_positives, true), ("N", &r.true_negatives, false)] {
                    for ex in list.iter() {
                        let Some(m) = ex.as_mapping() else {
                            pattern.push('X');
                            continue;
                        };
                        let mk = m.get("__marker").and_then(|x| x.as_str()).unwrap_or("").to_string();
                        let got = eng::matches(&r, m).unwrap_or(!want);
                        rep.evaluations += 1;
                        if got == want {
                            passing.push(mk);
                            pattern.push(if side == "P" { 'p' } else { 'n' });
                        } else {
                            failing.push(mk);
                            pattern.push(if side == "P" { 'F' } else { 'G' });
                        }
                    }
                    pattern.push('|');
                }
                let should_fail = !failing.is_empty() || !malformed.is_empty();
                rep.evaluations += 1;
                let case = json!({"rule": text, "switches": sw.0, "expected": if should_fail { "Err" } else { "Ok(true)" }, "failing_examples": failing, "malformed": malformed.len()});
                match eng::validate(&r) {
                    Err(p) => {
                        rep.violation("panic", &format!("c13-panic:{}", p.sig()), &format!("validate() panicked: {}", p.sig()), case);
                    }
                    Ok(Ok(okv)) => {
                        if should_fail || !okv {
                            rep.violation("validate-ok", &format!("c13-ok:{}", if malformed.is_empty() { "failing-example" } else { "malformed" }), &format!("validate() returned Ok({}) although {} example(s) fail by matches() and {} entries are not mappings (optimise[{}])", okv, failing.len(), malformed.len(), sw.name()), case);
                        }
                    }
                    Ok(Err(e)) => {
                        if !should_fail {
                            rep.violation("validate-err", "c13-err", &format!("validate() returned an error although every example behaves: {}", e.chars().take(160).collect::<String>()), case);
                        } else {
                            // the error names each failing example and no passing one
                            for f in &failing {
                                if !f.is_empty() && !e.contains(f.as_str()) {
                                    rep.violation("not-named", "c13-not-named", &format!("validation error does not name failing example {} (pattern {}, optimise[{}])", f, pattern, sw.name()), case.clone());
                                    break;
                                }
                            }
                            for p in &passing {
                                // (an identical document may sit in both lists: its marker is then
                                // rightly in the text when the other copy fails)
                                if !p.is_empty() && !failing.contains(p) && e.contains(p.as_str()) {
                                    rep.violation("wrongly-named", "c13-wrongly-named", &format!("validation error names example {} which behaves correctly", p), case.clone());
                                    break;
                                }
                            }
                        }
                    }
                }
                if should_fail {
                    rep.nontrivial_key(&format!("{}|{}|{}", pattern, sw.0 != 0, malformed.len()));
                }
                // call sequence: the example lists are public fields; after a successful
                // validate() an example that must fail is added (a matching document as a true
                // negative, or a non-matching one as a true positive) - validate() looks again
                if !should_fail {
                    let mut r2 = r.clone();
                    let _ = eng::validate(&r2);
                    let moved = if let Some(ex) = r2.true_positives.first().cloned() {
                        r2.true_negatives.push(ex);
                        true
                    } else if let Some(ex) = r2.true_negatives.first().cloned() {
                        r2.true_positives.push(ex);
                        true
                    } else {
                        false
                    };
                    if moved {
                        rep.evaluations += 1;
                        rep.count("validate_after_edit");
                        if let Ok(Ok(_)) = eng::validate(&r2) {
                            rep.violation("validate-ok", "c13-ok:after-edit", &format!("validate() returns Ok after an example that must fail was added to a rule that had validated before (optimise[{}])", sw.name()), json!({"rule": text, "switches": sw.0, "expected": "Err", "failing_examples": [], "malformed": 0, "sequence": "validate(); push a true positive onto true_negatives; validate()"}));
                        }
                    }
                }
            }
            if n == 0 && shard < 3 {
                rep.sample(json!({"rule": text, "positives": ntp, "negatives": ntn, "malformed_entries": malformed.len()}));
            }
            let _ = to_yaml_map;
        }
        rep
    });
    let mut rep = rep;
    crate::regress::replay_witnesses(ctx, &mut rep);
    finish(
        ctx,
        rep,
        Meta {
            rule: "generated rules with example lists of 0-3 positives and 0-3 negatives drawn from matching / non-matching / empty documents, each carrying a unique marker in a field no predicate addresses; a quarter of the rules also get non-mapping example entries; one example in eight keeps part of its fields under a literal `<<` (merge-key) entry; one in twenty is a truly empty mapping; after a successful validate() an example that must fail is added through the public fields and validate() is called again; unoptimised and four optimised variants. Oracle: matches() on each example: validate() must return Ok(true) exactly when all behave, otherwise an error whose text contains the markers of exactly the failing examples; malformed entries must give an error, never a panic. non-trivial = list with at least one failing or malformed example; distinct by (pass/fail pattern, optimised?, malformed count)".into(),
            exhaustive: false,
            assumptions: vec!["'names each failing example' is checked through unique marker values, independent of the error's format".into()],
            min_nontrivial: 30,
            extra: json!({}),
        },
    )
}
