//! Reference interpreter of the documented rule language. Works from the author's AST (or from
//! the harness's own parse of rule text) and from `DVal`; shares no code with the engine.
//!
//! Set-valued: every evaluation returns the set of three-valued results the documentation and
//! the property statements allow. Cells they fix are singletons; cells they leave open (DESIGN
//! Appendix A) are larger sets, so an open cell can never produce a violation.

use regex::{Regex, RegexBuilder};

use crate::ast::*;
use crate::dval::{lookup, DVal};

pub type TS = u8;
pub const T: TS = 1;
pub const F: TS = 2;
pub const M: TS = 4;
pub const FM: TS = F | M;
pub const TF: TS = T | F;
pub const ANY: TS = T | F | M;

pub fn ts_name(s: TS) -> String {
    let mut v = vec![];
    if s & T != 0 {
        v.push("T");
    }
    if s & F != 0 {
        v.push("F");
    }
    if s & M != 0 {
        v.push("M");
    }
    format!("{{{}}}", v.join(","))
}

/// engine solve3 code (0 false, 1 true, 2 missing) -> singleton set
pub fn from_code(c: u8) -> TS {
    match c {
        0 => F,
        1 => T,
        _ => M,
    }
}

// ---------------------------------------------------------------------------------------------
// three-valued connectives on sets

pub fn not3(s: TS) -> TS {
    let mut o = 0;
    if s & T != 0 {
        o |= F;
    }
    if s & F != 0 {
        o |= T;
    }
    if s & M != 0 {
        o |= F;
    }
    o
}

/// ordered conjunction: the first non-true operand result, true if there is none
pub fn and_ordered(xs: &[TS]) -> TS {
    let mut out = 0;
    let mut reach = true;
    for &s in xs {
        if !reach {
            break;
        }
        out |= s & FM;
        reach = s & T != 0;
    }
    if reach {
        out |= T;
    }
    out
}

/// conjunction whose operand order is not fixed: true if every operand can be true, and any
/// operand's non-true result (some order puts it first)
pub fn and_free(xs: &[TS]) -> TS {
    let mut out = 0;
    if xs.iter().all(|s| s & T != 0) {
        out |= T;
    }
    for &s in xs {
        out |= s & FM;
    }
    out
}

/// disjunction: true if any is true, else false if any is false, else missing
pub fn or3(xs: &[TS]) -> TS {
    let mut out = 0;
    if xs.iter().any(|s| s & T != 0) {
        out |= T;
    }
    let all_can_be_nontrue = xs.iter().all(|s| s & FM != 0);
    if all_can_be_nontrue {
        // false: nobody true and somebody false
        if xs.iter().any(|s| s & F != 0) {
            out |= F;
        }
        // missing: everybody missing
        if xs.iter().all(|s| s & M != 0) {
            out |= M;
        }
    }
    out
}

/// `all`: true iff every operand is true; when not true the texts do not say false or missing.
pub fn all3(xs: &[TS]) -> TS {
    let mut out = 0;
    if xs.iter().all(|s| s & T != 0) {
        out |= T;
    }
    if xs.iter().any(|s| s & FM != 0) {
        out |= FM;
    }
    out
}

/// `of(n)`: n >= 1: true iff at least n operands true. n == 0: true iff none is true and some
/// operand is false; not true if some operand is true or all are missing.
pub fn of3(xs: &[TS], n: u64) -> TS {
    let lo = xs.iter().filter(|&&s| s == T).count() as u64; // certainly true
    let hi = xs.iter().filter(|&&s| s & T != 0).count() as u64; // possibly true
    let mut out = 0;
    if n >= 1 {
        if hi >= n {
            out |= T;
        }
        if lo < n {
            out |= FM;
        }
    } else {
        if hi >= 1 {
            out |= FM; // some operand may be true -> not true
        }
        if lo == 0 {
            // possible that none is true
            let some_false_possible = xs.iter().any(|s| s & F != 0);
            let all_missing_possible = xs.iter().all(|s| s & M != 0);
            if some_false_possible {
                out |= T;
            }
            if all_missing_possible {
                out |= FM;
            }
            // (none true, none false, not all missing cannot happen)
        }
    }
    out
}

// ---------------------------------------------------------------------------------------------
// pattern syntax

#[derive(Clone, Debug)]
pub enum NumC {
    I(i64),
    F(f64),
}

#[derive(Clone, Debug)]
pub enum PKind {
    Regex(Regex),
    Num(CmpOp, NumC),
    Any,
    Contains(String),
    Ends(String),
    Starts(String),
    Exact(String),
}

#[derive(Clone, Debug)]
pub struct Pat {
    pub insens: bool,
    pub kind: PKind,
}

fn strict_int(s: &str) -> Option<i64> {
    let d = s.strip_prefix('-').unwrap_or(s);
    if d.is_empty() || !d.bytes().all(|b| b.is_ascii_digit()) {
        return None;
    }
    s.parse::<i64>().ok()
}
fn strict_float(s: &str) -> Option<f64> {
    let d = s.strip_prefix('-').unwrap_or(s);
    let (a, b) = d.split_once('.')?;
    if a.is_empty() && b.is_empty() {
        return None;
    }
    if !a.bytes().all(|b| b.is_ascii_digit()) || !b.bytes().all(|b| b.is_ascii_digit()) {
        return None;
    }
    s.parse::<f64>().ok()
}

/// The documented pattern syntax. `icase_build`: the `ignore_case` build, where every string
/// pattern is insensitive and no `i` prefix is interpreted.
pub fn parse_pattern(s: &str, icase_build: bool) -> Result<Pat, String> {
    let (insens, body) = if icase_build {
        (true, s)
    } else if let Some(r) = s.strip_prefix('i') {
        (true, r)
    } else {
        (false, s)
    };
    let kind = if let Some(re) = body.strip_prefix('?') {
        PKind::Regex(RegexBuilder::new(re).case_insensitive(insens).build().map_err(|e| e.to_string())?)
    } else if let Some((op, rest)) = [(">=", CmpOp::Ge), (">", CmpOp::Gt), ("<=", CmpOp::Le), ("<", CmpOp::Lt), ("=", CmpOp::Eq)]
        .iter()
        .find_map(|(p, o)| body.strip_prefix(p).map(|r| (*o, r)))
    {
        if rest.contains('.') {
            PKind::Num(op, NumC::F(strict_float(rest).ok_or("bad float")?))
        } else {
            PKind::Num(op, NumC::I(strict_int(rest).ok_or("bad int")?))
        }
    } else if body == "*" {
        PKind::Any
    } else if body.len() >= 2 && body.starts_with('*') && body.ends_with('*') {
        PKind::Contains(body[1..body.len() - 1].to_string())
    } else if let Some(r) = body.strip_prefix('*') {
        PKind::Ends(r.to_string())
    } else if let Some(r) = body.strip_suffix('*') {
        PKind::Starts(r.to_string())
    } else if body.len() >= 2 && ((body.starts_with('"') && body.ends_with('"')) || (body.starts_with('\'') && body.ends_with('\''))) {
        PKind::Exact(body[1..body.len() - 1].to_string())
    } else {
        PKind::Exact(body.to_string())
    };
    Ok(Pat { insens, kind })
}

pub fn str_match(p: &Pat, hay: &str) -> bool {
    let fold = |s: &str| if p.insens { s.to_ascii_lowercase() } else { s.to_string() };
    match &p.kind {
        PKind::Regex(r) => r.is_match(hay),
        PKind::Any => true,
        PKind::Contains(n) => fold(hay).contains(&fold(n)),
        PKind::Ends(n) => fold(hay).ends_with(&fold(n)),
        PKind::Starts(n) => fold(hay).starts_with(&fold(n)),
        PKind::Exact(n) => fold(hay) == fold(n),
        PKind::Num(..) => false,
    }
}

fn b(x: bool) -> TS {
    if x {
        T
    } else {
        F
    }
}

/// canonical decimal text of a scalar (what `str()` compares)
pub fn scalar_text(v: &DVal) -> Option<String> {
    match v {
        DVal::Bool(x) => Some(x.to_string()),
        DVal::Int(x) => Some(x.to_string()),
        DVal::UInt(x) => Some(x.to_string()),
        DVal::Float(x) => Some(x.to_string()),
        DVal::Str(s) => Some(s.clone()),
        _ => None,
    }
}

pub fn leaf_str(p: &Pat, cast: bool, v: Option<&DVal>) -> TS {
    match v {
        None => M,
        Some(DVal::Str(s)) => b(str_match(p, s)),
        Some(DVal::Arr(items)) => {
            if items.iter().any(|x| matches!(x, DVal::Str(s) if str_match(p, s))) {
                T
            } else if cast && items.iter().any(|x| !matches!(x, DVal::Str(_)) && scalar_text(x).map(|t| str_match(p, &t)).unwrap_or(false)) {
                ANY
            } else {
                FM
            }
        }
        Some(x @ (DVal::Bool(_) | DVal::Int(_) | DVal::UInt(_) | DVal::Float(_))) => {
            if cast {
                b(str_match(p, &scalar_text(x).unwrap()))
            } else {
                FM
            }
        }
        Some(DVal::Null) | Some(DVal::Obj(_)) => FM,
    }
}

// ---------------------------------------------------------------------------------------------
// exact numeric comparison

#[derive(Clone, Copy, Debug, PartialEq)]
pub enum Num {
    I(i128),
    F(f64),
}

pub fn num_of(v: &DVal) -> Option<Num> {
    match v {
        DVal::Int(i) => Some(Num::I(*i as i128)),
        DVal::UInt(u) => Some(Num::I(*u as i128)),
        DVal::Float(f) => Some(Num::F(*f)),
        _ => None,
    }
}

/// exact mathematical comparison; None when a NaN is involved
pub fn cmp_exact(a: Num, c: Num) -> Option<std::cmp::Ordering> {
    use std::cmp::Ordering::*;
    match (a, c) {
        (Num::I(x), Num::I(y)) => Some(x.cmp(&y)),
        (Num::F(x), Num::F(y)) => x.partial_cmp(&y),
        (Num::I(x), Num::F(y)) => cmp_if(x, y),
        (Num::F(x), Num::I(y)) => cmp_if(y, x).map(|o| o.reverse()),
    }
    .map(|o: std::cmp::Ordering| match o {
        Less => Less,
        Equal => Equal,
        Greater => Greater,
    })
}

/// compare integer x with float y exactly
fn cmp_if(x: i128, y: f64) -> Option<std::cmp::Ordering> {
    use std::cmp::Ordering::*;
    if y.is_nan() {
        return None;
    }
    if y == f64::INFINITY {
        return Some(Less);
    }
    if y == f64::NEG_INFINITY {
        return Some(Greater);
    }
    // |x| < 2^64; floats beyond 2^100 are trivially larger in magnitude
    if y >= 1e30 {
        return Some(Less);
    }
    if y <= -1e30 {
        return Some(Greater);
    }
    let fl = y.floor();
    let fi = fl as i128; // exact: |fl| < 2^100 and fl integral
    match x.cmp(&fi) {
        Less => Some(Less),
        Greater => Some(Greater),
        Equal => {
            if y > fl {
                Some(Less)
            } else {
                Some(Equal)
            }
        }
    }
}

pub fn rel(op: CmpOp, o: Option<std::cmp::Ordering>) -> bool {
    use std::cmp::Ordering::*;
    match (op, o) {
        (_, None) => false,
        (CmpOp::Eq, Some(x)) => x == Equal,
        (CmpOp::Gt, Some(x)) => x == Greater,
        (CmpOp::Ge, Some(x)) => x != Less,
        (CmpOp::Lt, Some(x)) => x == Less,
        (CmpOp::Le, Some(x)) => x != Greater,
    }
}

/// Result of converting a field value for a cast operand.
#[derive(Clone, Debug, PartialEq)]
pub enum Conv {
    /// the field is absent
    Absent,
    /// converts, to exactly this number
    Exact(Num),
    /// converts, the texts do not say to which of these two (rounding)
    Either(Num, Num),
    /// the texts leave open whether this converts; if it does it denotes this number
    Open(Num),
    /// not convertible: the comparison is false
    No,
}

const I64MIN: i128 = i64::MIN as i128;
const I64MAX: i128 = i64::MAX as i128;

pub fn conv_int(v: Option<&DVal>) -> Conv {
    match v {
        None => Conv::Absent,
        Some(DVal::Bool(x)) => Conv::Exact(Num::I(*x as i128)),
        Some(DVal::Int(i)) => Conv::Exact(Num::I(*i as i128)),
        Some(DVal::UInt(u)) => {
            if (*u as i128) <= I64MAX {
                Conv::Exact(Num::I(*u as i128))
            } else {
                Conv::Open(Num::I(*u as i128))
            }
        }
        Some(DVal::Float(f)) => {
            if !f.is_finite() {
                Conv::No
            } else if *f >= 9.3e18 || *f <= -9.3e18 {
                // clearly outside i64 (the boundary band 2^63 +- is treated as open below)
                Conv::Open(Num::F(*f))
            } else if *f >= 9.2e18 || *f <= -9.2e18 {
                Conv::Open(Num::F(*f))
            } else if f.fract() == 0.0 {
                Conv::Exact(Num::I(*f as i128))
            } else {
                Conv::Either(Num::I(f.floor() as i128), Num::I(f.ceil() as i128))
            }
        }
        Some(DVal::Str(s)) => {
            let d = s.strip_prefix('-').unwrap_or(s);
            if !d.is_empty() && d.bytes().all(|b| b.is_ascii_digit()) && d.len() <= 30 {
                let x: i128 = s.parse().unwrap();
                if (I64MIN..=I64MAX).contains(&x) {
                    Conv::Exact(Num::I(x))
                } else {
                    Conv::Open(Num::I(x))
                }
            } else if let Ok(x) = s.trim().parse::<f64>() {
                // liberal readings ("+5", "5.0", " 5", "1e3"): open
                if x.is_nan() {
                    Conv::No
                } else {
                    Conv::Open(Num::F(x))
                }
            } else {
                Conv::No
            }
        }
        Some(DVal::Null) | Some(DVal::Arr(_)) | Some(DVal::Obj(_)) => Conv::No,
    }
}

pub fn conv_flt(v: Option<&DVal>) -> Conv {
    match v {
        None => Conv::Absent,
        Some(DVal::Bool(x)) => Conv::Exact(Num::F(if *x { 1.0 } else { 0.0 })),
        Some(DVal::Float(f)) => Conv::Exact(Num::F(*f)),
        Some(DVal::Int(i)) => {
            let f = *i as f64;
            if f as i128 == *i as i128 && f.abs() < 9.2e18 {
                Conv::Exact(Num::F(f))
            } else {
                Conv::Either(Num::F(f), Num::I(*i as i128))
            }
        }
        Some(DVal::UInt(u)) => {
            let f = *u as f64;
            if f < 1.8e19 && f as u128 == *u as u128 {
                Conv::Exact(Num::F(f))
            } else {
                Conv::Either(Num::F(f), Num::I(*u as i128))
            }
        }
        Some(DVal::Str(s)) => {
            let d = s.strip_prefix('-').unwrap_or(s);
            let strict = !d.is_empty()
                && d.bytes().all(|b| b.is_ascii_digit() || b == b'.')
                && d.bytes().filter(|b| *b == b'.').count() <= 1
                && d != "."
                && d.len() <= 17;
            match s.parse::<f64>() {
                Ok(x) if strict => Conv::Exact(Num::F(x)),
                Ok(x) if !x.is_nan() => Conv::Open(Num::F(x)),
                Ok(_) => Conv::Open(Num::F(f64::NAN)),
                Err(_) => match s.trim().parse::<f64>() {
                    Ok(x) => Conv::Open(Num::F(x)),
                    Err(_) => Conv::No,
                },
            }
        }
        Some(DVal::Null) | Some(DVal::Arr(_)) | Some(DVal::Obj(_)) => Conv::No,
    }
}

fn conv_const(c: &Num) -> Conv {
    Conv::Exact(*c)
}

/// comparison of two converted operands
pub fn cmp_conv(l: &Conv, op: CmpOp, r: &Conv) -> TS {
    // absent on the left is looked at first, then absent on the right: both give missing
    if *l == Conv::Absent {
        return M;
    }
    if *r == Conv::Absent {
        // a non-convertible left operand is reported before the right one is looked up
        return if matches!(l, Conv::No | Conv::Open(_)) { F | M } else { M };
    }
    if *l == Conv::No || *r == Conv::No {
        return F;
    }
    let vals = |c: &Conv| -> (Vec<Num>, bool) {
        match c {
            Conv::Exact(n) => (vec![*n], false),
            Conv::Either(a, b) => (vec![*a, *b], false),
            Conv::Open(n) => (vec![*n], true),
            _ => (vec![], false),
        }
    };
    let (lv, lo) = vals(l);
    let (rv, ro) = vals(r);
    let mut out = 0;
    for a in &lv {
        for c in &rv {
            out |= b(rel(op, cmp_exact(*a, *c)));
        }
    }
    if lo || ro {
        out |= F; // if it does not convert the comparison is false
    }
    out
}

#[derive(Clone, Copy, Debug, PartialEq)]
pub enum FieldExpr {
    Field,
    IntCast,
    FltCast,
}

/// numeric predicate `field op const`
pub fn leaf_num(op: CmpOp, c: &NumC, fe: FieldExpr, v: Option<&DVal>) -> TS {
    let cn = match c {
        NumC::I(i) => Num::I(*i as i128),
        NumC::F(f) => Num::F(*f),
    };
    match fe {
        FieldExpr::Field => match v {
            None => M,
            Some(x) => match num_of(x) {
                None => FM,
                Some(n) => {
                    let holds = rel(op, cmp_exact(n, cn));
                    let same_kind = match (n, cn) {
                        (Num::I(a), Num::I(_)) => a <= I64MAX,
                        (Num::F(_), Num::F(_)) => true,
                        _ => false,
                    };
                    if same_kind {
                        b(holds)
                    } else if holds {
                        TF
                    } else {
                        F
                    }
                }
            },
        },
        FieldExpr::IntCast => match c {
            NumC::I(_) => cmp_conv(&conv_int(v), op, &conv_const(&cn)),
            NumC::F(_) => {
                if v.is_none() {
                    M
                } else {
                    ANY // int() against a float constant: not documented
                }
            }
        },
        FieldExpr::FltCast => match c {
            NumC::F(_) => cmp_conv(&conv_flt(v), op, &conv_const(&cn)),
            NumC::I(_) => {
                if v.is_none() {
                    M
                } else {
                    ANY // flt() against an integer constant: not documented
                }
            }
        },
    }
}

pub fn leaf_bool(bv: bool, v: Option<&DVal>) -> TS {
    match v {
        None => M,
        Some(DVal::Bool(x)) => b(*x == bv),
        Some(_) => FM,
    }
}

pub fn leaf_null(v: Option<&DVal>) -> TS {
    match v {
        None => M,
        Some(DVal::Null) => T,
        Some(_) => FM,
    }
}

// ---------------------------------------------------------------------------------------------
// identifiers

#[derive(Clone)]
pub struct Ref {
    pub icase_build: bool,
    /// conjunctions yield ANY of their operands' non-true results instead of the first one:
    /// the envelope of every reordering / regrouping of the conjunctions (the model of the open
    /// C01 finding 'negated-structure')
    pub order_free: bool,
    /// condition-level quantifiers may count their operands per FIELD instead of per entry (the
    /// optimiser merges the searches of one field into one child): the result is the union of
    /// both countings (the model of the open C01 finding 'condition-quantifier')
    pub group_quant: bool,
}

impl Default for Ref {
    fn default() -> Self {
        Ref { icase_build: false, order_free: false, group_quant: false }
    }
}

impl Ref {
    fn fe(m: &KMod) -> FieldExpr {
        match m {
            KMod::Int => FieldExpr::IntCast,
            KMod::Flt => FieldExpr::FltCast,
            _ => FieldExpr::Field,
        }
    }

    /// a single (non-list) value on a field; `m` is the cast part of the key modifier
    fn eval_scalar(&self, field: &str, m: &KMod, val: &RVal, doc: &DVal, fv: Option<&DVal>) -> TS {
        let cast = *m == KMod::Str;
        match val {
            RVal::Str(s) => match parse_pattern(s, self.icase_build) {
                Err(_) => ANY,
                Ok(p) => match &p.kind {
                    PKind::Num(op, c) => {
                        if cast {
                            ANY
                        } else {
                            leaf_num(*op, c, Self::fe(m), fv)
                        }
                    }
                    _ => {
                        if matches!(m, KMod::Int | KMod::Flt) {
                            ANY
                        } else {
                            leaf_str(&p, cast, fv)
                        }
                    }
                },
            },
            RVal::Int(i) => {
                if cast {
                    leaf_str(&Pat { insens: false, kind: PKind::Exact(i.to_string()) }, true, fv)
                } else {
                    leaf_num(CmpOp::Eq, &NumC::I(*i), Self::fe(m), fv)
                }
            }
            RVal::Float(x) => {
                if cast {
                    leaf_str(&Pat { insens: false, kind: PKind::Exact(x.to_string()) }, true, fv)
                } else {
                    leaf_num(CmpOp::Eq, &NumC::F(*x), Self::fe(m), fv)
                }
            }
            RVal::Bool(bv) => match m {
                KMod::Int => leaf_num(CmpOp::Eq, &NumC::I(*bv as i64), FieldExpr::IntCast, fv),
                KMod::Str => leaf_str(&Pat { insens: false, kind: PKind::Exact(bv.to_string()) }, true, fv),
                KMod::Flt => {
                    if fv.is_none() {
                        M
                    } else {
                        ANY
                    }
                }
                _ => leaf_bool(*bv, fv),
            },
            RVal::Null => match m {
                KMod::Int | KMod::Flt | KMod::Str => {
                    if fv.is_none() {
                        M
                    } else {
                        ANY
                    }
                }
                _ => leaf_null(fv),
            },
            RVal::Map(es) => {
                let _ = (field, doc);
                self.eval_nested(es, fv)
            }
            RVal::List(_) => ANY, // lists inside lists are not part of the language
        }
    }

    pub fn eval_nested(&self, es: &Entries, fv: Option<&DVal>) -> TS {
        match fv {
            None => M,
            Some(o @ DVal::Obj(_)) => self.eval_entries(es, o),
            Some(DVal::Arr(items)) => {
                let sets: Vec<TS> = items.iter().filter(|x| matches!(x, DVal::Obj(_))).map(|o| self.eval_entries(es, o)).collect();
                if sets.iter().any(|s| *s == T) {
                    T
                } else if sets.iter().all(|s| s & T == 0) {
                    FM
                } else {
                    ANY
                }
            }
            Some(_) => FM,
        }
    }

    pub fn eval_entry(&self, key: &Key, val: &RVal, doc: &DVal) -> TS {
        if crate::dval::parse_path(&key.field).is_none() {
            return ANY;
        }
        let fv = lookup(doc, &key.field);
        let castmod = match &key.modi {
            KMod::Int => KMod::Int,
            KMod::Flt => KMod::Flt,
            KMod::Str => KMod::Str,
            _ => KMod::None,
        };
        let res = match val {
            RVal::List(members) => {
                let sets: Vec<TS> = members.iter().map(|m| self.eval_scalar(&key.field, &castmod, m, doc, fv)).collect();
                match &key.modi {
                    // an array-valued field under a quantifier: the texts do not say whether the
                    // members may be satisfied by different elements (Appendix A)
                    // The two readings bracket the result: when some single element satisfies the
                    // quantifier both readings are true, when even the union over all elements
                    // does not, neither is; only in between is the cell open.
                    KMod::All | KMod::Of(_) if matches!(fv, Some(DVal::Arr(_))) => {
                        let Some(DVal::Arr(items)) = fv else { unreachable!() };
                        let q = |xs: &[TS]| match &key.modi {
                            KMod::All => all3(xs),
                            KMod::Of(n) => of3(xs, *n),
                            _ => ANY,
                        };
                        let union = q(&sets);
                        if matches!(key.modi, KMod::Of(0)) {
                            // none-of: decided only when no member is matched by any element
                            if union == T {
                                T
                            } else {
                                ANY
                            }
                        } else if items.iter().any(|x| matches!(x, DVal::Arr(_))) {
                            ANY
                        } else {
                            // (only string predicates are documented to look inside arrays)
                            let all_string_members = !matches!(castmod, KMod::Int | KMod::Flt)
                                && members.iter().all(|m| matches!(m, RVal::Str(p) if matches!(parse_pattern(p, self.icase_build), Ok(Pat { kind: PKind::Regex(_) | PKind::Any | PKind::Contains(_) | PKind::Ends(_) | PKind::Starts(_) | PKind::Exact(_), .. }))));
                            let some_element = all_string_members && items.iter().any(|x| {
                                let per: Vec<TS> = members.iter().map(|m| self.eval_scalar(&key.field, &castmod, m, doc, Some(x))).collect();
                                q(&per) == T
                            });
                            if some_element {
                                T
                            } else if union & T == 0 {
                                FM
                            } else {
                                ANY
                            }
                        }
                    }
                    KMod::All => {
                        if fv.is_none() {
                            M
                        } else {
                            all3(&sets)
                        }
                    }
                    KMod::Of(n) => {
                        if fv.is_none() {
                            M
                        } else {
                            of3(&sets, *n)
                        }
                    }
                    _ => or3(&sets),
                }
            }
            v => {
                if matches!(key.modi, KMod::All | KMod::Of(_)) {
                    ANY // the loader rejects quantifiers on non-lists
                } else {
                    self.eval_scalar(&key.field, &castmod, v, doc, fv)
                }
            }
        };
        if key.modi == KMod::Not {
            not3(res)
        } else {
            res
        }
    }

    pub fn entry_sets(&self, es: &Entries, doc: &DVal) -> Vec<TS> {
        es.iter().map(|(k, v)| self.eval_entry(k, v, doc)).collect()
    }

    fn and(&self, xs: &[TS]) -> TS {
        if self.order_free {
            and_free(xs)
        } else {
            and_ordered(xs)
        }
    }

    pub fn eval_entries(&self, es: &Entries, doc: &DVal) -> TS {
        self.and(&self.entry_sets(es, doc))
    }

    pub fn eval_ident(&self, i: &Ident, doc: &DVal) -> TS {
        match i {
            Ident::Map(es) => self.eval_entries(es, doc),
            Ident::Seq(ms) => or3(&ms.iter().map(|es| self.eval_entries(es, doc)).collect::<Vec<_>>()),
        }
    }

    /// the operand results `all(X)` / `of(X, n)` count: the items of a sequence, or the
    /// key/value entries of a mapping
    pub fn ident_operands(&self, i: &Ident, doc: &DVal) -> Vec<TS> {
        match i {
            Ident::Map(es) => self.entry_sets(es, doc),
            Ident::Seq(ms) => ms.iter().map(|es| self.eval_entries(es, doc)).collect(),
        }
    }

    /// Operand vectors a condition-level quantifier over `i` may end up counting once the
    /// optimiser has collapsed single-child groups and merged the searches of one field: the
    /// operands as written; the entries of the only item of a one-item sequence; the members of
    /// the list of an only entry; each of these also with the operands on one field merged into
    /// one disjunction. None = some addressed field holds an array (merged searches then count
    /// within one element): no envelope.
    pub fn quant_candidates(&self, i: &Ident, doc: &DVal) -> Option<Vec<Vec<TS>>> {
        fn group(ops: Vec<(Option<String>, TS)>) -> Vec<TS> {
            let mut groups: Vec<(Option<String>, Vec<TS>)> = vec![];
            for (f, s) in ops {
                match groups.iter_mut().find(|(g, _)| f.is_some() && *g == f) {
                    Some((_, v)) => v.push(s),
                    None => groups.push((f, vec![s])),
                }
            }
            groups.iter().map(|(_, v)| if v.len() == 1 { v[0] } else { or3(v) }).collect()
        }
        let mut levels: Vec<Vec<(Option<String>, TS)>> = vec![];
        let entries_level = |es: &Entries| -> Vec<(Option<String>, TS)> { es.iter().map(|(k, v)| (Some(k.field.clone()), self.eval_entry(k, v, doc))).collect() };
        let mut only_entries: Option<&Entries> = None;
        match i {
            Ident::Map(es) => {
                levels.push(entries_level(es));
                only_entries = Some(es);
            }
            Ident::Seq(ms) => {
                levels.push(ms.iter().map(|es| (if es.len() == 1 { Some(es[0].0.field.clone()) } else { None }, self.eval_entries(es, doc))).collect());
                if ms.len() == 1 {
                    levels.push(entries_level(&ms[0]));
                    only_entries = Some(&ms[0]);
                }
            }
        }
        if let Some(es) = only_entries {
            if es.len() == 1 {
                if let (k, RVal::List(members)) = (&es[0].0, &es[0].1) {
                    if matches!(k.modi, KMod::None | KMod::Int | KMod::Flt | KMod::Str) && crate::dval::parse_path(&k.field).is_some() {
                        let fv = lookup(doc, &k.field);
                        levels.push(members.iter().map(|m| (Some(k.field.clone()), self.eval_scalar(&k.field, &k.modi, m, doc, fv))).collect());
                    }
                }
            }
        }
        // arrays under any addressed top-level field
        let mut fields: Vec<&str> = vec![];
        match i {
            Ident::Map(es) => fields.extend(es.iter().map(|(k, _)| k.field.as_str())),
            Ident::Seq(ms) => ms.iter().for_each(|es| fields.extend(es.iter().map(|(k, _)| k.field.as_str()))),
        }
        if fields.iter().any(|f| matches!(lookup(doc, f), Some(DVal::Arr(_)))) {
            return None;
        }
        let mut out = vec![];
        for l in levels {
            out.push(l.iter().map(|(_, s)| *s).collect());
            out.push(group(l));
        }
        Some(out)
    }

    /// `all(X)` / `of(X, n)` where X is a mapping with a single entry whose value is a list: the
    /// texts do not say whether the entry or the list's members are counted (DESIGN Appendix A).
    pub fn quantifier_shape_open(i: &Ident) -> bool {
        matches!(i, Ident::Map(es) if es.len() == 1 && matches!(es[0].1, RVal::List(_)))
    }

    fn operand(&self, o: &Opnd, doc: &DVal) -> Conv {
        match o {
            Opnd::Int(i) => Conv::Exact(Num::I(*i as i128)),
            Opnd::Flt(f) => Conv::Exact(Num::F(*f)),
            Opnd::Cast(CastK::Int, f) => conv_int(lookup(doc, f)),
            Opnd::Cast(CastK::Flt, f) => conv_flt(lookup(doc, f)),
            Opnd::Cast(CastK::Str, _) => Conv::No,
        }
    }

    pub fn eval_cond(&self, rule: &RuleAst, c: &Cond, doc: &DVal) -> TS {
        match c {
            Cond::Id(x) => match rule.ident(x) {
                Some(i) => self.eval_ident(i, doc),
                None => ANY,
            },
            Cond::And(a, b2) => self.and(&[self.eval_cond(rule, a, doc), self.eval_cond(rule, b2, doc)]),
            Cond::Or(a, b2) => or3(&[self.eval_cond(rule, a, doc), self.eval_cond(rule, b2, doc)]),
            Cond::Not(a) => not3(self.eval_cond(rule, a, doc)),
            Cond::Paren(a) => self.eval_cond(rule, a, doc),
            Cond::All(x) => match rule.ident(x) {
                Some(i) if Self::quantifier_shape_open(i) => ANY,
                Some(i) => {
                    let per_entry = all3(&self.ident_operands(i, doc));
                    if self.group_quant {
                        match self.quant_candidates(i, doc) {
                            Some(cs) => cs.iter().fold(per_entry, |acc, c| acc | all3(c)),
                            None => ANY,
                        }
                    } else {
                        per_entry
                    }
                }
                None => ANY,
            },
            Cond::Of(x, n) => match rule.ident(x) {
                Some(i) if Self::quantifier_shape_open(i) => ANY,
                Some(i) => {
                    let per_entry = of3(&self.ident_operands(i, doc), *n);
                    if self.group_quant {
                        match self.quant_candidates(i, doc) {
                            Some(cs) => cs.iter().fold(per_entry, |acc, c| acc | of3(c, *n)),
                            None => ANY,
                        }
                    } else {
                        per_entry
                    }
                }
                None => ANY,
            },
            Cond::Cmp(l, op, r) => {
                if let (Opnd::Cast(CastK::Str, lf), Opnd::Cast(CastK::Str, rf)) = (l, r) {
                    let (lv, rv) = (lookup(doc, lf), lookup(doc, rf));
                    return match (lv, rv) {
                        (None, _) => M,
                        (Some(x), None) => {
                            if scalar_text(x).is_none() {
                                FM
                            } else {
                                M
                            }
                        }
                        (Some(x), Some(y)) => match (scalar_text(x), scalar_text(y)) {
                            (Some(p), Some(q)) => b(p == q),
                            _ => F,
                        },
                    };
                }
                // mixed int/float operand kinds are rejected by the loader; treat as open
                let kind = |o: &Opnd| match o {
                    Opnd::Int(_) | Opnd::Cast(CastK::Int, _) => 0,
                    Opnd::Flt(_) | Opnd::Cast(CastK::Flt, _) => 1,
                    _ => 2,
                };
                if kind(l) != kind(r) || kind(l) == 2 {
                    return ANY;
                }
                cmp_conv(&self.operand(l, doc), *op, &self.operand(r, doc))
            }
        }
    }

    pub fn eval_rule(&self, rule: &RuleAst, doc: &DVal) -> TS {
        self.eval_cond(rule, &rule.cond, doc)
    }
}

/// What the verdict must be, if the reference decides it.
pub fn verdict(s: TS) -> Option<bool> {
    if s == T {
        Some(true)
    } else if s & T == 0 {
        Some(false)
    } else {
        None
    }
}
