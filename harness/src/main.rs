use std::time::{Duration, Instant};

use tmon::run::{Ctx, Tier};

fn usage() -> ! {
    eprintln!("usage: tmon <c01..c17> [--tier quick|thorough] [--seed N] [--verif DIR] [--budget SECS] [--threads N]");
    eprintln!("       tmon replay <file>");
    std::process::exit(2)
}

fn main() {
    let args: Vec<String> = std::env::args().collect();
    if args.len() < 2 {
        usage();
    }
    tmon::eng::install_panic_hook();
    let cmd = args[1].to_lowercase();
    if cmd == "sani" {
        std::process::exit(tmon::sani::run(&args[2..]));
    }
    if cmd == "replay" {
        if args.len() < 3 {
            usage();
        }
        std::process::exit(tmon::mon::replay(&args[2]));
    }
    let mut tier = match std::env::var("VERIF_TIER").ok().as_deref() {
        Some("thorough") => Tier::Thorough,
        _ => Tier::Quick,
    };
    let mut seed: u64 = std::env::var("VERIF_SEED").ok().and_then(|s| s.parse().ok()).unwrap_or(1);
    let mut verif = std::env::var("VERIF_DIR").unwrap_or_else(|_| "/verif".into());
    let mut budget: Option<u64> = None;
    let mut threads = std::thread::available_parallelism().map(|n| n.get()).unwrap_or(8).min(16);
    let mut rest: Vec<String> = vec![];
    let mut i = 2;
    while i < args.len() {
        match args[i].as_str() {
            "--tier" => {
                i += 1;
                tier = match args.get(i).map(|s| s.as_str()) {
                    Some("thorough") => Tier::Thorough,
                    Some("quick") => Tier::Quick,
                    _ => usage(),
                };
            }
            "--seed" => {
                i += 1;
                seed = args.get(i).and_then(|s| s.parse().ok()).unwrap_or_else(|| usage());
            }
            "--verif" => {
                i += 1;
                verif = args.get(i).cloned().unwrap_or_else(|| usage());
            }
            "--budget" => {
                i += 1;
                budget = args.get(i).and_then(|s| s.parse().ok());
            }
            "--threads" => {
                i += 1;
                threads = args.get(i).and_then(|s| s.parse().ok()).unwrap_or(threads);
            }
            other => rest.push(other.to_string()),
        }
        i += 1;
    }
    if cmd == "c04-one" || cmd == "c03-one" {
        std::process::exit(if cmd == "c04-one" { tmon::c04::one(&args[2]) } else { tmon::c03::one(&args[2]) });
    }
    let prop: &'static str = match cmd.split('-').next().unwrap_or("") {
        "c01" => "C01",
        "c02" => "C02",
        "c03" => "C03",
        "c04" => "C04",
        "c05" => "C05",
        "c06" => "C06",
        "c07" => "C07",
        "c08" => "C08",
        "c09" => "C09",
        "c10" => "C10",
        "c11" => "C11",
        "c12" => "C12",
        "c13" => "C13",
        "c14" => "C14",
        "c15" => "C15",
        "c16" => "C16",
        "c17" => "C17",
        _ => "",
    };
    let default_budget = if tier == Tier::Quick { 150 } else { 1500 };
    let ctx = Ctx {
        prop,
        tier,
        seed,
        verif_dir: verif,
        start: Instant::now(),
        budget: Duration::from_secs(budget.unwrap_or(default_budget)),
        threads,
    };
    let code = match cmd.as_str() {
        "c01" => tmon::c01::run(&ctx),
        "c02" => tmon::c02::run(&ctx),
        "c03" => tmon::c03::run(&ctx),
        "c03-child" => tmon::c03::child(&ctx),
        "c04" => tmon::c04::run(&ctx, "c04"),
        "c04-child" => tmon::c04::child(&ctx),
        "c05" => tmon::c05::run(&ctx),
        "c06" => tmon::c06::run(&ctx),
        "c07" => tmon::c07::run(&ctx),
        "c08" => tmon::c08::run(&ctx),
        "c09" => tmon::c09::run(&ctx),
        "c10" => tmon::c10::run(&ctx),
        "c11" => tmon::c11::run(&ctx),
        "c12" => tmon::c12::run(&ctx),
        "c12-digest" => tmon::c12::digest(&ctx),
        "c12-threads" => tmon::c12::threads_only(&ctx),
        "c13" => tmon::c13::run(&ctx),
        "c14" => tmon::c14::run(&ctx),
        "c15" => tmon::c15::run(&ctx),
        "c15-emit" => tmon::c15::emit(&ctx),
        "c16" => tmon::c16::run(&ctx),
        "c17" => tmon::c17::run(&ctx),
        _ => {
            let _ = rest;
            usage()
        }
    };
    std::process::exit(code);
}
