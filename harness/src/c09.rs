//! C09 — numeric comparisons and casts are order-correct and overflow-safe.

use std::collections::HashMap;

use serde_json::json;

use crate::ast::*;
use crate::dval::{to_yaml_map, DVal};
use crate::eng;
use crate::mon;
use crate::prng::Rng;
use crate::refi::{self, cmp_exact, num_of, ts_name, Num, Ref, T};
use crate::reps::to_std_doc;
use crate::run::{finish, par_shards, Ctx, Meta, Report};

const P53: i64 = 9007199254740992;

pub fn int_consts() -> Vec<i64> {
    vec![
        i64::MIN, i64::MIN + 1, -2, -1, 0, 1, 2, 5, P53, P53 + 1, i64::MAX - 1, i64::MAX,
        // 32-bit and f32 boundaries (a narrowing conversion on the way wraps or rounds here)
        (1 << 31) - 1, 1 << 31, (1 << 32) - 1, 1 << 32, -(1 << 31), -(1 << 31) - 1, (1 << 24) + 1, 255, 256, 65536,
    ]
}
pub fn flt_consts() -> Vec<f64> {
    vec![0.0, 0.5, -0.5, 1.5, -1.5, 2.0, -2.0, 16777217.0, 4294967296.5, 1e15, 1e16, 123456789012345680.0, 1e-7, 3.4028235677973366e38, 1e19, 1.8446744073709552e19, 9.223372036854776e18, -9.223372036854776e18, 1e300, -1e300]
}

pub fn field_values() -> Vec<DVal> {
    let mut v = vec![];
    for i in int_consts() {
        v.push(DVal::Int(i));
        if i >= 0 {
            v.push(DVal::UInt(i as u64));
        }
        v.push(DVal::Float(i as f64));
    }
    for u in [i64::MAX as u64 + 1, u64::MAX, u64::MAX - 1, 3, 4, 6] {
        v.push(DVal::UInt(u));
    }
    for f in flt_consts() {
        v.push(DVal::Float(f));
    }
    for f in [f64::NAN, f64::INFINITY, f64::NEG_INFINITY, -0.0, 5e-324, 4.999999999, 5.000000001, 0.49999999999999994, 2.5, 3.5, -2.5, 9.223372036854775e18, 1.8446744073709550e19] {
        v.push(DVal::Float(f));
    }
    for s in ["5", "+5", " 5", "5 ", "5.0", "1e3", "0x10", "-2", "2", "1", "0", "1.5", "9223372036854775807", "9223372036854775808", "-9223372036854775809", "abc", "", "true", "NaN", "inf", "1_000", "٥"] {
        v.push(DVal::s(s));
    }
    v.push(DVal::Bool(true));
    v.push(DVal::Bool(false));
    v.push(DVal::Null);
    v.push(DVal::Arr(vec![]));
    v.push(DVal::Arr(vec![DVal::UInt(5)]));
    v.push(DVal::Obj(vec![]));
    v.push(DVal::obj(vec![("x", DVal::UInt(5))]));
    v
}

#[derive(Clone, Debug)]
pub enum Form {
    /// `k: <pattern or bare number>` with a key modifier
    Key(KMod, RVal),
    /// a condition-level comparison
    Cond(Cond),
    /// the key inside a sequence of two-key blocks that share fields: the shape the matrix pass
    /// turns into table rows (the other keys are chosen so that only this predicate decides)
    Row(KMod, RVal),
}

fn rule_of(form: &Form) -> RuleAst {
    match form {
        Form::Key(m, v) => RuleAst { idents: vec![("A".into(), Ident::Map(vec![(Key::with("f", m.clone()), v.clone())]))], cond: Cond::id("A"), tp: vec![], tn: vec![] },
        Form::Cond(c) => RuleAst { idents: vec![], cond: c.clone(), tp: vec![], tn: vec![] },
        Form::Row(m, v) => {
            let s = |t: &str| RVal::Str(t.into());
            let rows: Vec<Entries> = vec![
                vec![(Key::with("f", m.clone()), v.clone()), (Key::plain("g"), s("x"))],
                vec![(Key::plain("g"), s("y")), (Key::with("f", m.clone()), v.clone())],
                vec![(Key::plain("g"), s("z")), (Key::plain("h"), s("z"))],
            ];
            RuleAst { idents: vec![("A".into(), Ident::Seq(rows))], cond: Cond::id("A"), tp: vec![], tn: vec![] }
        }
    }
}

fn num_pat(op: CmpOp, c: &Num) -> String {
    match c {
        Num::I(i) => format!("{}{}", op.pat_text(), i),
        Num::F(f) => format!("{}{}", op.pat_text(), fmt_float(*f)),
    }
}

/// all forms for one (operator, constant)
pub fn forms(op: CmpOp, c: Num) -> Vec<(String, Form)> {
    let mut v = vec![];
    let pat = RVal::Str(num_pat(op, &c));
    match c {
        Num::I(i) => {
            v.push(("key".into(), Form::Key(KMod::None, pat.clone())));
            v.push(("int(key)".into(), Form::Key(KMod::Int, pat.clone())));
            v.push(("not(key)".into(), Form::Key(KMod::Not, pat.clone())));
            v.push(("row key".into(), Form::Row(KMod::None, pat.clone())));
            v.push(("row int(key)".into(), Form::Row(KMod::Int, pat.clone())));
            if op == CmpOp::Eq {
                v.push(("row int(key)-bare".into(), Form::Row(KMod::Int, RVal::Int(i as i64))));
            }
            if op == CmpOp::Eq {
                v.push(("key-bare".into(), Form::Key(KMod::None, RVal::Int(i as i64))));
                v.push(("int(key)-bare".into(), Form::Key(KMod::Int, RVal::Int(i as i64))));
                v.push(("str(key)-bare".into(), Form::Key(KMod::Str, RVal::Int(i as i64))));
                v.push(("key-list".into(), Form::Key(KMod::None, RVal::List(vec![RVal::Int(i as i64), RVal::Str(">9223372036854775806".into())]))));
            }
            if i >= 0 {
                let i = i as i64;
                v.push(("cond int(f) op c".into(), Form::Cond(Cond::Cmp(Opnd::Cast(CastK::Int, "f".into()), op, Opnd::Int(i)))));
                v.push(("cond c op int(f)".into(), Form::Cond(Cond::Cmp(Opnd::Int(i), op, Opnd::Cast(CastK::Int, "f".into())))));
            }
        }
        Num::F(f) => {
            v.push(("key".into(), Form::Key(KMod::None, pat.clone())));
            v.push(("flt(key)".into(), Form::Key(KMod::Flt, pat.clone())));
            v.push(("row flt(key)".into(), Form::Row(KMod::Flt, pat.clone())));
            if op == CmpOp::Eq {
                v.push(("key-bare".into(), Form::Key(KMod::None, RVal::Float(f))));
                v.push(("flt(key)-bare".into(), Form::Key(KMod::Flt, RVal::Float(f))));
                v.push(("str(key)-bare".into(), Form::Key(KMod::Str, RVal::Float(f))));
            }
            // the condition carries the constant as positional decimal text: use the value that
            // text denotes
            let f: f64 = fmt_float(f).parse().unwrap_or(f);
            if f >= 0.0 && f < 1e18 {
                v.push(("cond flt(f) op c".into(), Form::Cond(Cond::Cmp(Opnd::Cast(CastK::Flt, "f".into()), op, Opnd::Flt(f)))));
                v.push(("cond c op flt(f)".into(), Form::Cond(Cond::Cmp(Opnd::Flt(f), op, Opnd::Cast(CastK::Flt, "f".into())))));
            }
        }
    }
    v
}

fn near(v: &DVal, c: &Num) -> bool {
    let Some(n) = num_of(v) else { return false };
    let boundary = |n: &Num| match n {
        Num::I(i) => [i64::MAX as i128, i64::MAX as i128 + 1, i64::MIN as i128, P53 as i128, P53 as i128 + 1, u64::MAX as i128].contains(i),
        Num::F(f) => *f == 9.223372036854776e18 || *f == -9.223372036854776e18 || *f == 1.8446744073709552e19 || f.is_nan() || f.is_infinite(),
    };
    if boundary(&n) || boundary(c) {
        return true;
    }
    match (n, *c) {
        (Num::I(a), Num::I(b)) => (a - b).abs() <= 1,
        (Num::F(a), Num::F(b)) => (a - b).abs() <= 1.0,
        (Num::I(a), Num::F(b)) | (Num::F(b), Num::I(a)) => ((a as f64) - b).abs() <= 1.0,
    }
}

pub struct Tally {
    pub trich_checked: u64,
}

/// evaluate one rule on one document in both numeric deliveries (YAML: non-negative integers
/// arrive unsigned; std types: signedness as given)
fn check(rep: &mut Report, rf: &Ref, ast: &RuleAst, text: &str, rule: &tau_engine::Rule, doc: &DVal, label: &str, nontrivial: bool) -> Option<bool> {
    let exp = rf.eval_rule(ast, doc);
    let ydoc = doc.normalised();
    let yexp = rf.eval_rule(ast, &ydoc);
    let m = to_yaml_map(&ydoc);
    let h: HashMap<String, crate::reps::StdVal> = to_std_doc(doc, 0, false);
    let mut verdict = None;
    for (rep_name, got3, e) in [("yaml", eng::solve3(rule, &m), yexp), ("std", eng::solve3(rule, &h), exp)] {
        rep.evaluations += 1;
        match got3 {
            Err(p) => {
                rep.violation("panic", &format!("panic:{}", p.sig()), &format!("numeric predicate panicked: {}", p.sig()), mon::case(text, doc, None, json!("no-panic"), json!(p.sig()), json!({"form": label})));
                return None;
            }
            Ok(g) => {
                if nontrivial {
                    rep.nontrivial_key(&format!("{}|{}|{}", label, text.len(), doc.to_json_text()));
                }
                if e.count_ones() > 1 && g != 1 && e & T != 0 {
                    rep.count("incomplete_but_sound");
                }
                if refi::from_code(g) & e == 0 {
                    rep.violation(
                        "numeric",
                        &format!("c09:{}:{}", label, doc.get("f").map(|v| v.kind()).unwrap_or("absent")),
                        &format!("{} on f={} ({} delivery): engine {} , exact arithmetic allows {}", label, doc.get("f").map(|v| v.to_json_text()).unwrap_or("<absent>".into()), rep_name, ts_name(refi::from_code(g)), ts_name(e)),
                        mon::case(text, &ydoc, None, json!(refi::verdict(e)), json!(g == 1), json!({"form": label, "delivery": rep_name, "allowed": ts_name(e), "engine3": g})),
                    );
                    return None;
                }
                if rep_name == "std" {
                    verdict = Some(g == 1);
                }
            }
        }
    }
    // the optimised forms of the same rule (all switches / rewrite only / everything but
    // coalesce): optimisation may trade false for missing, so only truth is compared
    thread_local! {
        static OPT: std::cell::RefCell<(String, Vec<(eng::Sw, tau_engine::Rule)>)> = std::cell::RefCell::new((String::new(), vec![]));
    }
    let bad = OPT.with(|c| {
        let mut c = c.borrow_mut();
        if c.0 != text {
            c.0 = text.to_string();
            c.1 = [eng::Sw(15), eng::Sw(4), eng::Sw(14)].iter().filter_map(|s| eng::optimise(rule, *s).ok().map(|r| (*s, r))).collect();
            if label.starts_with("row") {
                rep.count(if c.1.iter().any(|(_, r)| eng::printed(r).contains("matrix(")) { "row_forms_optimised_into_a_matrix" } else { "row_forms_without_a_matrix" });
            }
        }
        for (sw, r) in c.1.iter() {
            for (rep_name, got3, e) in [("yaml", eng::solve3(r, &m), yexp), ("std", eng::solve3(r, &h), exp)] {
                rep.evaluations += 1;
                match got3 {
                    Err(p) => return Some((*sw, rep_name, format!("panicked: {}", p.sig()), e)),
                    Ok(g) => {
                        if (g == 1 && e & T == 0) || (g != 1 && e == T) {
                            return Some((*sw, rep_name, ts_name(refi::from_code(g)), e));
                        }
                    }
                }
            }
        }
        None
    });
    if let Some((sw, rep_name, got, e)) = bad {
        rep.violation(
            "numeric-optimised",
            &format!("c09-opt:{}:{}", label, doc.get("f").map(|v| v.kind()).unwrap_or("absent")),
            &format!("{} on f={} ({} delivery), optimised [{}]: engine {} , exact arithmetic allows {}", label, doc.get("f").map(|v| v.to_json_text()).unwrap_or("<absent>".into()), rep_name, sw.name(), got, ts_name(e)),
            mon::case(text, &ydoc, Some(sw), json!(refi::verdict(e)), json!(got), json!({"form": label, "delivery": rep_name, "allowed": ts_name(e)})),
        );
        return None;
    }
    verdict
}

pub fn run(ctx: &Ctx) -> i32 {
    let rf = Ref::default();
    let values = field_values();
    let mut consts: Vec<Num> = int_consts().into_iter().map(|i| Num::I(i as i128)).collect();
    consts.extend(flt_consts().into_iter().map(Num::F));
    let nconst = consts.len();
    let grid = par_shards(ctx, nconst, |ci| {
        let mut rep = Report::new();
        let c = consts[ci];
        // per value: the verdicts of <, =, > , >=, <= in the plain-key form (for trichotomy)
        let mut table: HashMap<(String, usize), [Option<bool>; 5]> = HashMap::new();
        for (oi, op) in CmpOp::ALL.iter().enumerate() {
            for (label, form) in forms(*op, c) {
                let ast = rule_of(&form);
                let Some(text) = ast.to_text() else {
                    rep.count("emitter_self_check_failed");
                    continue;
                };
                let Some(rule) = eng::load_ok(&text) else {
                    rep.violation("load-failed", &format!("c09-load:{}", label), &format!("numeric rule does not load: {}", label), json!({"rule": text}));
                    continue;
                };
                let full = format!("{} {:?} {:?}", label, op, c);
                for (vi, v) in values.iter().enumerate() {
                    let doc = if label.starts_with("row") { DVal::Obj(vec![("f".into(), v.clone()), ("g".into(), DVal::s("x"))]) } else { DVal::Obj(vec![("f".into(), v.clone())]) };
                    let r = check(&mut rep, &rf, &ast, &text, &rule, &doc, &full, near(v, &c));
                    if label == "key" || label == "int(key)" || label == "flt(key)" {
                        table.entry((label.clone(), vi)).or_insert([None; 5])[oi] = r;
                    }
                }
                // absent field
                check(&mut rep, &rf, &ast, &text, &rule, &DVal::Obj(vec![("g".into(), DVal::UInt(5))]), &full, true);
                if rep.samples.is_empty() && *op == CmpOp::Ge {
                    rep.sample(json!({"form": label, "rule": text, "values_tried": values.len(), "example_value": values[3].to_json_text()}));
                }
            }
        }
        // trichotomy: for a present, non-NaN value of the constant's own kind exactly one of
        // <, =, > holds and >= / <= are their unions
        for ((label, vi), row) in &table {
            let v = &values[*vi];
            let Some(n) = num_of(v) else { continue };
            let same = match (n, c) {
                (Num::I(a), Num::I(_)) => label == "key" && a <= i64::MAX as i128,
                (Num::F(x), Num::F(_)) => label == "key" && !x.is_nan(),
                _ => false,
            };
            if !same {
                continue;
            }
            if let [Some(eq), Some(gt), Some(ge), Some(lt), Some(le)] = row {
                rep.count("trichotomy_checked");
                let one = [*eq, *gt, *lt].iter().filter(|x| **x).count() == 1;
                if !one || *ge != (*gt || *eq) || *le != (*lt || *eq) {
                    rep.violation("trichotomy", "c09-trichotomy", &format!("value {} vs constant {:?}: = {} > {} >= {} < {} <= {}", v.to_json_text(), c, eq, gt, ge, lt, le), json!({"value": v.to_json_text(), "constant": format!("{:?}", c)}));
                }
                let _ = cmp_exact(n, c);
            }
        }
        rep
    });
    // two-field comparisons and str()==str()
    let pairs = par_shards(ctx, 4, |k| {
        let mut rep = Report::new();
        let conds: Vec<(String, Cond)> = match k {
            0 => CmpOp::ALL.iter().map(|op| (format!("int(f) {:?} int(g)", op), Cond::Cmp(Opnd::Cast(CastK::Int, "f".into()), *op, Opnd::Cast(CastK::Int, "g".into())))).collect(),
            1 => CmpOp::ALL.iter().map(|op| (format!("flt(f) {:?} flt(g)", op), Cond::Cmp(Opnd::Cast(CastK::Flt, "f".into()), *op, Opnd::Cast(CastK::Flt, "g".into())))).collect(),
            2 => vec![("str(f) == str(g)".into(), Cond::Cmp(Opnd::Cast(CastK::Str, "f".into()), CmpOp::Eq, Opnd::Cast(CastK::Str, "g".into())))],
            _ => vec![],
        };
        for (label, c) in conds {
            let ast = RuleAst { idents: vec![], cond: c, tp: vec![], tn: vec![] };
            let Some(text) = ast.to_text() else { continue };
            let Some(rule) = eng::load_ok(&text) else {
                rep.violation("load-failed", &format!("c09-load:{}", label), &format!("rule does not load: {}", label), json!({"rule": text}));
                continue;
            };
            for (i, a) in values.iter().enumerate() {
                for (j, b) in values.iter().enumerate() {
                    if (i * 7 + j * 3) % ctx.size(5, 1) != 0 {
                        continue;
                    }
                    let doc = DVal::Obj(vec![("f".into(), a.clone()), ("g".into(), b.clone())]);
                    check(&mut rep, &rf, &ast, &text, &rule, &doc, &label, true);
                }
                check(&mut rep, &rf, &ast, &text, &rule, &DVal::Obj(vec![("f".into(), a.clone())]), &label, true);
                check(&mut rep, &rf, &ast, &text, &rule, &DVal::Obj(vec![("g".into(), a.clone())]), &label, true);
            }
        }
        rep
    });
    // operand-order symmetry: `cast op c` and `c mirrored-op cast` are the same predicate, and a
    // cast compared with itself on a convertible value is equal - whatever rounding the cast uses
    let symmetry = par_shards(ctx, 2, |k| {
        let mut rep = Report::new();
        let (kind, consts): (CastK, Vec<Opnd>) = if k == 0 { (CastK::Int, vec![Opnd::Int(0), Opnd::Int(1), Opnd::Int(2), Opnd::Int(3), Opnd::Int(5), Opnd::Int(i64::MAX)]) } else { (CastK::Flt, vec![Opnd::Flt(0.0), Opnd::Flt(0.5), Opnd::Flt(1.5), Opnd::Flt(2.5), Opnd::Flt(3.0)]) };
        let mirror = |op: CmpOp| match op {
            CmpOp::Eq => CmpOp::Eq,
            CmpOp::Gt => CmpOp::Lt,
            CmpOp::Ge => CmpOp::Le,
            CmpOp::Lt => CmpOp::Gt,
            CmpOp::Le => CmpOp::Ge,
        };
        let mut vals = values.clone();
        for f in [0.5, 1.5, 2.5, 2.6, 2.4, -2.6, -0.5, 3.5, 0.49, 0.51, 4.999] {
            vals.push(DVal::Float(f));
        }
        let load = |c: Cond| -> Option<(String, tau_engine::Rule)> {
            let ast = RuleAst { idents: vec![], cond: c, tp: vec![], tn: vec![] };
            let t = ast.to_text()?;
            let r = eng::load_ok(&t)?;
            Some((t, r))
        };
        for op in CmpOp::ALL {
            for c in &consts {
                let a = load(Cond::Cmp(Opnd::Cast(kind, "f".into()), op, c.clone()));
                let b = load(Cond::Cmp(c.clone(), mirror(op), Opnd::Cast(kind, "f".into())));
                let (Some((ta, ra)), Some((_tb, rb))) = (a, b) else { continue };
                for v in &vals {
                    let doc = DVal::Obj(vec![("f".into(), v.clone())]);
                    let m = to_yaml_map(&doc.normalised());
                    rep.evaluations += 2;
                    let (x, y) = (eng::solve3(&ra, &m).unwrap_or(9), eng::solve3(&rb, &m).unwrap_or(9));
                    rep.nontrivial_key(&format!("sym|{:?}|{:?}|{}", op, c, v.to_json_text()));
                    if x != y {
                        rep.violation("operand-order", &format!("c09-operand-order:{}", kind.name()), &format!("{}(f) {:?} {} gives {} but the mirrored form gives {} on f={}", kind.name(), op, c.text(), x, y, v.to_json_text()), mon::case(&ta, &doc.normalised(), None, json!(y == 1), json!(x == 1), json!({})));
                    }
                }
            }
        }
        // reflexivity: cast(f) == cast(g) with g holding the same convertible value
        if let Some((t, r)) = load(Cond::Cmp(Opnd::Cast(kind, "f".into()), CmpOp::Eq, Opnd::Cast(kind, "g".into()))) {
            for v in &vals {
                let convertible = match (kind, v) {
                    (CastK::Int, DVal::Float(x)) => x.is_finite() && x.abs() < 9.0e18,
                    (CastK::Int, DVal::UInt(u)) => *u <= i64::MAX as u64,
                    (CastK::Int, DVal::Int(_)) | (_, DVal::Bool(_)) => true,
                    (CastK::Flt, DVal::Float(x)) => !x.is_nan(),
                    (CastK::Flt, DVal::Int(_)) | (CastK::Flt, DVal::UInt(_)) => true,
                    _ => false,
                };
                if !convertible {
                    continue;
                }
                let doc = DVal::Obj(vec![("f".into(), v.clone()), ("g".into(), v.clone())]);
                rep.evaluations += 1;
                if eng::matches(&r, &to_yaml_map(&doc.normalised())).unwrap_or(true) != true {
                    rep.violation("reflexivity", &format!("c09-reflexivity:{}", kind.name()), &format!("{}(f) == {}(g) is not true although f and g hold the same convertible value {}", kind.name(), kind.name(), v.to_json_text()), mon::case(&t, &doc.normalised(), None, json!(true), json!(false), json!({})));
                }
            }
        }
        rep
    });
    // random 64-bit patterns reinterpreted as i64 / u64 / f64
    let random = par_shards(ctx, 16, |shard| {
        let mut rep = Report::new();
        let mut rng = Rng::new(ctx.seed, "C09", shard as u64);
        for _ in 0..ctx.size(3000, 60000) {
            if ctx.expired() {
                rep.truncated = true;
                break;
            }
            let bits = |rng: &mut Rng| -> u64 {
                match rng.below(4) {
                    0 => rng.next(),
                    1 => rng.next() >> rng.below(64),
                    2 => (i64::MAX as u64).wrapping_add(rng.below(5) as u64).wrapping_sub(2),
                    _ => u64::MAX - rng.below(3) as u64,
                }
            };
            let cb = bits(&mut rng);
            let c = if rng.chance(60) {
                Num::I(cb as i64 as i128)
            } else {
                let f = f64::from_bits(cb);
                if !f.is_finite() || f.abs() > 1e300 || (f != 0.0 && f.abs() < 1e-300) {
                    continue;
                }
                Num::F(f)
            };
            let vb = if rng.chance(30) { cb.wrapping_add(rng.below(3) as u64).wrapping_sub(1) } else { bits(&mut rng) };
            let v = match rng.below(4) {
                0 => DVal::Int(vb as i64),
                1 => DVal::UInt(vb),
                2 => DVal::Float(f64::from_bits(vb)),
                _ => DVal::Float(vb as i64 as f64),
            };
            let op = *rng.pick(&CmpOp::ALL);
            let fs = forms(op, c);
            let (label, form) = rng.pick(&fs).clone();
            let ast = rule_of(&form);
            let Some(text) = ast.to_text() else {
                rep.count("emitter_self_check_failed");
                continue;
            };
            let Some(rule) = eng::load_ok(&text) else {
                rep.count("random_rejected");
                continue;
            };
            let doc = DVal::Obj(vec![("f".into(), v)]);
            check(&mut rep, &rf, &ast, &text, &rule, &doc, &format!("random {}", label), true);
            rep.count("random_triples");
        }
        rep
    });
    let mut rep = grid;
    rep.merge(pairs);
    rep.merge(symmetry);
    rep.merge(random);
    crate::regress::replay_witnesses(ctx, &mut rep);
    if rep.get("trichotomy_checked") == 0 {
        rep.inconclusive.push("trichotomy was never checked".into());
    }
    finish(
        ctx,
        rep,
        Meta {
            rule: format!("complete grid: operators {{=,>,>=,<,<=, bare}} x {} constants (i64 extremes, 2^53 boundary, signed zeros, fractions, 2^63/2^64 as doubles, 1e300) x {} field values (every constant as Int/UInt/Float, i64::MAX+1, u64::MAX, NaN, +-inf, numeric and non-numeric strings, booleans, null, arrays, objects) x forms {{plain key, int(key), flt(key), str(key), not(key), the same keys inside a sequence of blocks that the matrix pass turns into table rows, list, condition int()/flt() comparisons in both operand orders, two-field comparisons, str()==str()}}, each value delivered through YAML (non-negative integers unsigned) and through std types (signedness as given); plus random 64-bit patterns reinterpreted as i64/u64/f64. Oracle: exact arithmetic in i128 / IEEE order with conversion tables for the casts. non-trivial = triple within one unit of the constant or on a kind boundary; distinct by (form, operator, constant, value)", nconst, values.len()),
            exhaustive: true,
            assumptions: vec!["mixed-kind comparisons answered false although the relation holds are what the statement permits (counted as incomplete_but_sound)".into(), "rounding direction of int() on a non-integral float is open".into()],
            min_nontrivial: 500,
            extra: json!({}),
        },
    )
}
