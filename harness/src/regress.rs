//! Witnesses of known findings (open and fixed), replayed by every run of the properties they
//! belong to. A failing witness of an *open* finding is reported under the finding's exact
//! signature (=> KNOWN-FINDING); a failing witness of a *fixed* finding is an ordinary violation.

use serde_json::{json, Value as J};

use crate::dval::to_yaml_map;
use crate::eng::{self, Load, Sw};
use crate::mon;
use crate::run::{Ctx, Report};

fn sw_of(w: &J) -> Vec<Sw> {
    match w.get("switches") {
        Some(J::Array(a)) => a.iter().filter_map(|x| x.as_u64()).map(|x| Sw(x as u8)).collect(),
        Some(x) if x.as_u64().is_some() => vec![Sw(x.as_u64().unwrap() as u8)],
        _ => Sw::ALL16.iter().skip(1).cloned().collect(),
    }
}

/// Some(description) when the witness still fails against the current engine.
pub fn witness_fails(w: &J) -> Option<String> {
    let ty = w["type"].as_str().unwrap_or("");
    let rule_text = w["rule"].as_str().unwrap_or("");
    if ty == "nopanic-load" {
        return match eng::load(rule_text) {
            Err(p) => Some(format!("load panicked: {}", p.sig())),
            Ok(_) => None,
        };
    }
    let rule = match eng::load(rule_text) {
        Err(p) => return Some(format!("load panicked: {}", p.sig())),
        Ok(Load::Err(e)) => {
            return if ty == "load-err" { None } else { Some(format!("witness rule no longer loads: {}", e)) };
        }
        Ok(Load::Ok(r)) => *r,
    };
    if ty == "load-err" {
        return Some("rule is accepted by the loader".into());
    }
    let doc = mon::doc_from_text(w["doc"].as_str().unwrap_or("{}"));
    let m = to_yaml_map(&doc);
    match ty {
        "verdict" => {
            let want = w["expected"].as_bool().unwrap_or(false);
            match eng::matches(&rule, &m) {
                Err(p) => Some(format!("matches panicked: {}", p.sig())),
                Ok(v) if v != want => Some(format!("verdict {} (expected {})", v, want)),
                _ => None,
            }
        }
        "optimise" => {
            let base = match eng::matches(&rule, &m) {
                Ok(b) => b,
                Err(p) => return Some(format!("matches panicked: {}", p.sig())),
            };
            for sw in sw_of(w) {
                for _ in 0..8 {
                    match eng::optimise(&rule, sw) {
                        Err(p) => return Some(format!("optimise[{}] panicked: {}", sw.name(), p.sig())),
                        Ok(o) => match eng::matches(&o, &m) {
                            Err(p) => return Some(format!("optimised[{}] matches panicked: {}", sw.name(), p.sig())),
                            Ok(v) if v != base => return Some(format!("unoptimised={} optimised[{}]={}", base, sw.name(), v)),
                            _ => {}
                        },
                    }
                }
            }
            None
        }
        "nopanic-eval" => {
            if let Err(p) = eng::matches(&rule, &m) {
                return Some(format!("matches panicked: {}", p.sig()));
            }
            if let Err(p) = eng::validate(&rule) {
                return Some(format!("validate panicked: {}", p.sig()));
            }
            for sw in Sw::ALL16 {
                match eng::optimise(&rule, sw) {
                    Err(p) => return Some(format!("optimise[{}] panicked: {}", sw.name(), p.sig())),
                    Ok(o) => {
                        if let Err(p) = eng::matches(&o, &m) {
                            return Some(format!("optimised[{}] matches panicked: {}", sw.name(), p.sig()));
                        }
                    }
                }
            }
            None
        }
        "deterministic-print" => {
            for sw in sw_of(w) {
                let first = eng::optimise(&rule, sw).ok().map(|o| eng::printed(&o));
                for _ in 0..40 {
                    let again = eng::optimise(&rule, sw).ok().map(|o| eng::printed(&o));
                    if again != first {
                        return Some(format!("optimise[{}] printed two different expressions", sw.name()));
                    }
                }
            }
            None
        }
        other => Some(format!("unknown witness type {}", other)),
    }
}

/// Replay the witnesses that belong to this property.
pub fn replay_witnesses(ctx: &Ctx, rep: &mut Report) {
    let p = format!("{}/known_findings.json", ctx.verif_dir);
    let Ok(text) = std::fs::read_to_string(&p) else { return };
    let Ok(v) = serde_json::from_str::<J>(&text) else {
        rep.inconclusive.push("known_findings.json does not parse".into());
        return;
    };
    let Some(arr) = v.get("findings").and_then(|x| x.as_array()) else { return };
    for f in arr {
        let props: Vec<&str> = f["properties"].as_array().map(|a| a.iter().filter_map(|x| x.as_str()).collect()).unwrap_or_default();
        if !props.contains(&ctx.prop) {
            continue;
        }
        let id = f["id"].as_str().unwrap_or("?");
        let open = f["status"].as_str() == Some("open");
        let witnesses: Vec<&J> = match f.get("witnesses") {
            Some(J::Array(a)) => a.iter().collect(),
            _ => f.get("witness").into_iter().collect(),
        };
        for w in witnesses {
            rep.evaluations += 1;
            rep.count("witnesses_replayed");
            match witness_fails(w) {
                Some(what) => {
                    let case = json!({"rule": w["rule"], "doc": w["doc"], "switches": w.get("switches").cloned().unwrap_or(json!(-1)), "expected": w.get("expected").cloned().unwrap_or(J::Null), "finding": id});
                    if open {
                        rep.count(&format!("open_finding_reproduced.{}", id));
                        rep.violation("known", f["signature"].as_str().unwrap_or(""), &format!("witness of open finding {}: {}", id, what), case);
                    } else {
                        rep.violation("regression", &format!("regression:{}", id), &format!("witness of FIXED finding {} fails again: {}", id, what), case);
                    }
                }
                None => {
                    if open {
                        rep.notes.push(format!("witness of open finding {} no longer fails", id));
                    }
                }
            }
        }
    }
}
