//! Boundary adaptor around the real engine: every call runs under `catch_unwind`, and a panic
//! hook records where the panic came from.

use std::cell::RefCell;
use std::panic::{catch_unwind, AssertUnwindSafe};

use tau_engine::{Document, Optimisations, Rule};

#[derive(Clone, Debug, PartialEq)]
pub struct Panic {
    pub site: String,
    pub msg: String,
}
impl Panic {
    pub fn sig(&self) -> String {
        let m: String = self.msg.chars().take(60).collect();
        format!("{} :: {}", self.site, m)
    }
}

thread_local! {
    static LAST: RefCell<Option<Panic>> = const { RefCell::new(None) };
    static IN_GUARD: std::cell::Cell<u32> = const { std::cell::Cell::new(0) };
}

pub fn install_panic_hook() {
    std::panic::set_hook(Box::new(|info| {
        let site = info
            .location()
            .map(|l| {
                let f = l.file();
                let f = f.rsplit_once("/src/").map(|(a, b)| {
                    let krate = a.rsplit('/').next().unwrap_or("");
                    format!("{}/src/{}", krate, b)
                }).unwrap_or_else(|| f.to_string());
                format!("{}:{}", f, l.line())
            })
            .unwrap_or_else(|| "?".into());
        let msg = if let Some(s) = info.payload().downcast_ref::<&str>() {
            s.to_string()
        } else if let Some(s) = info.payload().downcast_ref::<String>() {
            s.clone()
        } else {
            "<non-string panic>".into()
        };
        let first = msg.lines().next().unwrap_or("").to_string();
        // a panic outside guard() is a bug of the harness itself: say so loudly
        if IN_GUARD.with(|g| g.get()) == 0 {
            eprintln!("HARNESS-ERROR: panic outside an engine call at {}: {}", site, first);
        }
        LAST.with(|l| *l.borrow_mut() = Some(Panic { site, msg: first }));
    }));
}

pub fn guard<T>(f: impl FnOnce() -> T) -> Result<T, Panic> {
    IN_GUARD.with(|g| g.set(g.get() + 1));
    let r = catch_unwind(AssertUnwindSafe(f));
    IN_GUARD.with(|g| g.set(g.get().saturating_sub(1)));
    match r {
        Ok(v) => Ok(v),
        Err(_) => Err(LAST
            .with(|l| l.borrow_mut().take())
            .unwrap_or(Panic { site: "?".into(), msg: "?".into() })),
    }
}

/// Optimisation switch set; bit 0 coalesce, 1 shake, 2 rewrite, 3 matrix.
#[derive(Clone, Copy, Debug, PartialEq, Eq, Hash, PartialOrd, Ord)]
pub struct Sw(pub u8);
impl Sw {
    pub const ALL16: [Sw; 16] = [
        Sw(0), Sw(1), Sw(2), Sw(3), Sw(4), Sw(5), Sw(6), Sw(7), Sw(8), Sw(9), Sw(10), Sw(11), Sw(12), Sw(13), Sw(14), Sw(15),
    ];
    pub fn coalesce(&self) -> bool {
        self.0 & 1 != 0
    }
    pub fn shake(&self) -> bool {
        self.0 & 2 != 0
    }
    pub fn rewrite(&self) -> bool {
        self.0 & 4 != 0
    }
    pub fn matrix(&self) -> bool {
        self.0 & 8 != 0
    }
    pub fn opts(&self) -> Optimisations {
        Optimisations { coalesce: self.coalesce(), shake: self.shake(), rewrite: self.rewrite(), matrix: self.matrix() }
    }
    pub fn name(&self) -> String {
        let mut v = vec![];
        if self.coalesce() {
            v.push("coalesce");
        }
        if self.shake() {
            v.push("shake");
        }
        if self.rewrite() {
            v.push("rewrite");
        }
        if self.matrix() {
            v.push("matrix");
        }
        if v.is_empty() {
            "none".into()
        } else {
            v.join("+")
        }
    }
    /// is `self` a subset of `o`?
    pub fn subset_of(&self, o: Sw) -> bool {
        self.0 & o.0 == self.0
    }
}

pub enum Load {
    Ok(Box<Rule>),
    Err(String),
}

pub fn load(text: &str) -> Result<Load, Panic> {
    guard(|| match Rule::from_str(text) {
        Ok(r) => Load::Ok(Box::new(r)),
        Err(e) => Load::Err(format!("{}", e)),
    })
}

pub fn load_ok(text: &str) -> Option<Rule> {
    match load(text) {
        Ok(Load::Ok(r)) => Some(*r),
        _ => None,
    }
}

pub fn load_value(v: serde_yaml::Value) -> Result<Load, Panic> {
    guard(|| match Rule::from_value(v) {
        Ok(r) => Load::Ok(Box::new(r)),
        Err(e) => Load::Err(format!("{}", e)),
    })
}

pub fn optimise(rule: &Rule, sw: Sw) -> Result<Rule, Panic> {
    let r = rule.clone();
    guard(move || r.optimise(sw.opts()))
}

pub fn matches(rule: &Rule, doc: &dyn Document) -> Result<bool, Panic> {
    guard(|| rule.matches(doc))
}

/// 0 = false, 1 = true, 2 = missing (hook H2).
pub fn solve3(rule: &Rule, doc: &dyn Document) -> Result<u8, Panic> {
    guard(|| tau_engine::verif::solve3(&rule.detection, doc))
}

pub fn validate(rule: &Rule) -> Result<Result<bool, String>, Panic> {
    guard(|| rule.validate().map_err(|e| format!("{}", e)))
}

/// Printed form of the whole detection: condition plus identifiers sorted by name.
pub fn printed(rule: &Rule) -> String {
    let mut keys: Vec<&String> = rule.detection.identifiers.keys().collect();
    keys.sort();
    let mut s = format!("{}", rule.detection.expression);
    for k in keys {
        s.push_str(&format!("\n  {}: {}", k, rule.detection.identifiers[k]));
    }
    s
}

pub fn take_arms() -> Vec<(&'static str, u64)> {
    tau_engine::verif::take()
}
