//! C07 — string predicates are exact for all strings, single or batched.

use serde_json::json;

use crate::ast::*;
use crate::dval::{to_yaml_map, DVal};
use crate::eng::{self, Sw};
use crate::mon;
use crate::prng::Rng;
use crate::refi::{parse_pattern, str_match, PKind, Pat};
use crate::run::{finish, par_shards, Ctx, Meta, Report};

fn strings_over(alpha: &[char], max_len: usize) -> Vec<String> {
    let mut out = vec![String::new()];
    let mut last = vec![String::new()];
    for _ in 0..max_len {
        let mut next = vec![];
        for s in &last {
            for c in alpha {
                let mut t = s.clone();
                t.push(*c);
                next.push(t);
            }
        }
        out.extend(next.iter().cloned());
        last = next;
    }
    out
}

fn regex_escape(s: &str) -> String {
    let mut o = String::new();
    for c in s.chars() {
        if "\\.+*?()|[]{}^$#&-~".contains(c) {
            o.push('\\');
        }
        o.push(c);
    }
    o
}

/// every pattern text for a needle: (relation name, pattern)
pub fn patterns_for(needle: &str) -> Vec<(&'static str, String)> {
    let mut v = vec![
        ("exact", needle.to_string()),
        ("prefix", format!("{}*", needle)),
        ("suffix", format!("*{}", needle)),
        ("contains", format!("*{}*", needle)),
        ("dquoted", format!("\"{}\"", needle)),
        ("squoted", format!("'{}'", needle)),
        ("regex", format!("?{}", regex_escape(needle))),
        ("regex-prefix", format!("?^{}", regex_escape(needle))),
        ("regex-suffix", format!("?{}$", regex_escape(needle))),
        ("regex-wild", format!("?.*{}.*", regex_escape(needle))),
        // quotes that are not a pair, and stars that belong to the text, are ordinary characters
        ("odd-quotes-ds", format!("\"{}'", needle)),
        ("odd-quotes-sd", format!("'{}\"", needle)),
        ("open-quote", format!("\"{}", needle)),
        ("close-quote", format!("{}'", needle)),
        ("quoted-wildcards", format!("'*{}*'", needle)),
        ("suffix-of-starred", format!("**{}", needle)),
        ("prefix-of-starred", format!("{}**", needle)),
        ("contains-starred", format!("**{}*", needle)),
    ];
    if needle.is_empty() {
        v.push(("any", "*".to_string()));
    }
    let mut out = v.clone();
    for (n, p) in v {
        out.push((n, format!("i{}", p)));
    }
    out
}

pub fn single_rule(key: &Key, val: RVal) -> RuleAst {
    RuleAst { idents: vec![("A".into(), Ident::Map(vec![(key.clone(), val)]))], cond: Cond::id("A"), tp: vec![], tn: vec![] }
}

fn doc(h: &str) -> DVal {
    DVal::Obj(vec![("k".into(), DVal::s(h))])
}

#[derive(Clone)]
struct Bits(Vec<u64>);
impl Bits {
    fn new(n: usize) -> Bits {
        Bits(vec![0; n.div_ceil(64)])
    }
    fn set(&mut self, i: usize) {
        self.0[i / 64] |= 1 << (i % 64);
    }
    fn get(&self, i: usize) -> bool {
        self.0[i / 64] >> (i % 64) & 1 == 1
    }
}

/// batch class of a string pattern in a list (how the parser groups members)
fn batch_class(p: &Pat) -> u8 {
    match (&p.kind, p.insens) {
        (PKind::Regex(_), false) => 2,
        (PKind::Regex(_), true) => 3,
        (PKind::Any, _) => 4,
        (PKind::Exact(s), _) if s.is_empty() => 5,
        (_, false) => 0,
        (_, true) => 1,
    }
}

struct Singles {
    pats: Vec<String>,
    parsed: Vec<Pat>,
    /// reference truth per pattern over the haystack list
    want: Vec<Bits>,
    /// engine verdict per pattern over the haystack list
    got: Vec<Bits>,
}

fn check_list(rep: &mut Report, s: &Singles, hays: &[String], members: &[usize], also_opt: bool) {
    let vals: Vec<RVal> = members.iter().map(|i| RVal::Str(s.pats[*i].clone())).collect();
    let ast = single_rule(&Key::plain("k"), RVal::List(vals.clone()));
    let Some(text) = ast.to_text() else { return };
    let Some(rule) = eng::load_ok(&text) else {
        rep.violation("load-failed", "c07-load-list", &format!("list of valid patterns does not load: {:?}", members.iter().map(|i| &s.pats[*i]).collect::<Vec<_>>()), json!({"rule": text}));
        return;
    };
    // the same members as one-pattern identifiers joined by `or` (plus one that never matches, so
    // that there are at least three operands): the optimiser merges them itself, in the order it
    // meets them - another way of batching than the loader's
    let split_rule: Option<tau_engine::Rule> = if also_opt {
        let mut idents: Vec<(String, Ident)> = vals.iter().enumerate().map(|(i, v)| (format!("M{}", i), Ident::Map(vec![(Key::plain("k"), v.clone())]))).collect();
        idents.push((format!("M{}", idents.len()), Ident::Map(vec![(Key::plain("k"), RVal::Str("*\u{1}zz\u{1}*".into()))])));
        let mut cond = Cond::id("M0");
        for i in 1..idents.len() {
            cond = Cond::or(cond, Cond::id(&format!("M{}", i)));
        }
        RuleAst { idents, cond, tp: vec![], tn: vec![] }.to_text().and_then(|t| eng::load_ok(&t)).and_then(|r| eng::optimise(&r, Sw(15)).ok())
    } else {
        None
    };
    let nast = single_rule(&Key::with("k", KMod::Not), RVal::List(vals));
    let nrule = nast.to_text().and_then(|t| eng::load_ok(&t));
    let orule = if also_opt { eng::optimise(&rule, Sw(15)).ok() } else { None };
    let classes: std::collections::BTreeSet<u8> = members.iter().map(|i| batch_class(&s.parsed[*i])).collect();
    for (hi, h) in hays.iter().enumerate() {
        let want = members.iter().any(|i| s.want[*i].get(hi));
        let engine_or = members.iter().any(|i| s.got[*i].get(hi));
        let m = to_yaml_map(&doc(h));
        let got = match eng::matches(&rule, &m) {
            Ok(g) => g,
            Err(p) => {
                // a panic is its own finding (signature = the panic site), not a wrong verdict
                let names: Vec<&str> = members.iter().map(|i| s.pats[*i].as_str()).collect();
                rep.violation("panic", &format!("c07-panic:{}", p.site), &format!("list {:?} on {:?}: matches() panicked at {}", names, h, p.sig()), mon::case(&text, &doc(h), None, json!("no-panic"), json!(p.sig()), json!({"members": names})));
                return;
            }
        };
        rep.evaluations += 1;
        let deciding = members.iter().filter(|i| s.want[**i].get(hi)).count();
        if deciding == 1 || classes.len() >= 2 {
            rep.nontrivial_key(&format!("L|{}|{}", members.iter().map(|i| s.pats[*i].as_str()).collect::<Vec<_>>().join("\u{1}"), h));
        }
        if got != want || got != engine_or {
            let names: Vec<&str> = members.iter().map(|i| s.pats[*i].as_str()).collect();
            rep.violation(
                "list",
                &format!("c07-list:{}", members.iter().map(|i| format!("{}", batch_class(&s.parsed[*i]))).collect::<Vec<_>>().join("")),
                &format!("list {:?} on {:?}: engine {} , some-member-matches {} , engine's own single-member verdicts {}", names, h, got, want, engine_or),
                mon::case(&text, &doc(h), None, json!(want), json!(got), json!({"members": names})),
            );
            return;
        }
        if let Some(nr) = &nrule {
            rep.evaluations += 1;
            let ng = eng::matches(nr, &m).unwrap_or(want);
            if ng == want {
                rep.violation("list-negated", "c07-list-not", &format!("not(k) list {:?} on {:?}: engine {}", members.iter().map(|i| s.pats[*i].as_str()).collect::<Vec<_>>(), h, ng), mon::case(&nast.to_text().unwrap_or_default(), &doc(h), None, json!(!want), json!(ng), json!({})));
                return;
            }
        }
        if let Some(sr) = &split_rule {
            rep.evaluations += 1;
            let sg = eng::matches(sr, &m).unwrap_or(!want);
            if sg != want {
                let names: Vec<&str> = members.iter().map(|i| s.pats[*i].as_str()).collect();
                rep.violation("list-split", "c07-list-split-optimised", &format!("patterns {:?} as separate identifiers joined by or, optimised, on {:?}: engine {} , some-member-matches {}", names, h, sg, want), mon::case(&text, &doc(h), Some(Sw(15)), json!(want), json!(sg), json!({"members": names, "form": "M0 or M1 or .. (one identifier per member)"})));
                return;
            }
        }
        if let Some(or) = &orule {
            rep.evaluations += 1;
            let og = eng::matches(or, &m).unwrap_or(!want);
            if og != want {
                rep.violation("list-optimised", "c07-list-opt", &format!("optimised list {:?} on {:?}: engine {}", members.iter().map(|i| s.pats[*i].as_str()).collect::<Vec<_>>(), h, og), mon::case(&text, &doc(h), Some(Sw(15)), json!(want), json!(og), json!({})));
                return;
            }
        }
    }
}

pub fn run(ctx: &Ctx) -> i32 {
    let needles = strings_over(&['a', 'b', 'A'], 3);
    let mut hays = strings_over(&['a', 'b', 'A', 'B'], 4);
    // values that contain the quote and star characters themselves
    for n in strings_over(&['a', 'B'], 2) {
        for (pre, post) in [("\"", "'"), ("'", "\""), ("\"", "\""), ("'", "'"), ("\"", ""), ("", "'"), ("*", ""), ("", "*"), ("*", "*"), ("b*", "a"), ("'*", "*'")] {
            hays.push(format!("{}{}{}", pre, n, post));
        }
    }
    for h in ["h\u{e9}llo", "\u{663}", "caf\u{e9}", "\u{212a}", "\u{17f}", "\u{a0}", "\u{e9}", "\u{c9}", "\u{65e5}\u{672c}", "a\u{301}", "\u{130}", "\u{131}", "\u{df}", "\u{2028}", "\u{85}", "\u{1f600}", "k", "S", "caf", "a\rb", "a\nb", "\r", "ab\r"] {
        hays.push(h.to_string());
    }
    // ---- singles (exhaustive)
    let mut rep = Report::new();
    let mut pats: Vec<String> = vec![];
    for n in &needles {
        for (_, p) in patterns_for(n) {
            if !pats.contains(&p) {
                pats.push(p);
            }
        }
    }
    // regexes whose meaning depends on Unicode support (classes, word boundaries, case folding)
    for r in ["?^\\w+$", "?\\d", "?\\bcaf\\b", "?^\\W$", "?\\s", "?^.$", "?^..$", "?^\\S$", "?\\b\\w", "?[[:alpha:]]", "?\\pL", "?^k$", "?^s$", "?\u{e9}", "?^\\w\\b", "?\\B."] {
        pats.push(r.to_string());
        pats.push(format!("i{}", r));
    }
    // regexes whose meaning depends on the case of their own text
    for r in ["?^\\S+$", "?\\D", "?\\W", "?\\Bb", "?^[A-B]+$", "?\\x41", "?a\\S", "?^\\w\\W?$"] {
        pats.push(r.to_string());
        pats.push(format!("i{}", r));
    }
    let mut s = Singles { pats: pats.clone(), parsed: vec![], want: vec![], got: vec![] };
    for p in &pats {
        let parsed = parse_pattern(p, false).expect("reference parses its own patterns");
        let ast = single_rule(&Key::plain("k"), RVal::Str(p.clone()));
        let text = ast.to_text().unwrap_or_default();
        let mut want = Bits::new(hays.len());
        let mut got = Bits::new(hays.len());
        match eng::load_ok(&text) {
            None => {
                rep.violation("load-failed", "c07-load-single", &format!("valid pattern {:?} does not load", p), json!({"rule": text}));
            }
            Some(rule) => {
                for (hi, h) in hays.iter().enumerate() {
                    let w = str_match(&parsed, h);
                    if w {
                        want.set(hi);
                    }
                    let m = to_yaml_map(&doc(h));
                    let g = eng::matches(&rule, &m).unwrap_or(!w);
                    if g {
                        got.set(hi);
                    }
                    rep.evaluations += 1;
                    if g != w {
                        rep.violation("single", &format!("c07-single:{}", relation_name(&parsed)), &format!("pattern {:?} on {:?}: engine {} , documented relation {}", p, h, g, w), mon::case(&text, &doc(h), None, json!(w), json!(g), json!({})));
                    }
                }
            }
        }
        s.parsed.push(parsed);
        s.want.push(want);
        s.got.push(got);
    }
    // non-trivial singles: the relation's truth differs from another relation's truth on the
    // same (needle, haystack)
    for n in &needles {
        let idx: Vec<usize> = patterns_for(n).iter().filter_map(|(_, p)| pats.iter().position(|q| q == p)).collect();
        for hi in 0..hays.len() {
            let t: Vec<bool> = idx.iter().map(|i| s.want[*i].get(hi)).collect();
            if t.iter().any(|x| *x) && t.iter().any(|x| !*x) {
                for i in &idx {
                    rep.nontrivial_key(&format!("S|{}|{}", pats[*i], hays[hi]));
                }
            }
        }
    }
    rep.add("single_patterns", pats.len() as u64);
    rep.sample(json!({"pattern": pats[37], "haystacks": hays.len(), "example_haystack": hays[100], "relation_holds": s.want[37].get(100), "engine": s.got[37].get(100)}));
    // ---- lists
    let npat = pats.len();
    let shards = ctx.size(64, 256);
    let pair_budget = ctx.size(20_000, npat * npat);
    let lrep = par_shards(ctx, shards, |shard| {
        let mut rep = Report::new();
        let mut rng = Rng::new(ctx.seed, "C07", shard as u64);
        // pairs: thorough = all ordered pairs (striped over shards), quick = seeded sample
        if ctx.quick() {
            for _ in 0..pair_budget / shards {
                if ctx.expired() {
                    rep.truncated = true;
                    break;
                }
                let (a, b) = (rng.below(npat), rng.below(npat));
                check_list(&mut rep, &s, &hays, &[a, b], rng.chance(20));
                rep.count("lists_of_2");
            }
        } else {
            let mut n = shard;
            while n < npat * npat {
                if ctx.expired() {
                    rep.truncated = true;
                    break;
                }
                check_list(&mut rep, &s, &hays, &[n / npat, n % npat], n % 7 == 0);
                rep.count("lists_of_2");
                n += shards;
            }
        }
        // longer lists, sampled
        for _ in 0..ctx.size(150, 3000) {
            if ctx.expired() {
                rep.truncated = true;
                break;
            }
            let len = 3 + rng.below(2);
            let members: Vec<usize> = (0..len).map(|_| rng.below(npat)).collect();
            check_list(&mut rep, &s, &hays, &members, rng.chance(30));
            rep.count("lists_of_3_4");
        }
        // random longer strings over an alphabet with multi-byte letters
        let alpha: Vec<char> = "abAB.é ÉßİK日 *?".chars().collect();
        for _ in 0..ctx.size(400, 8000) {
            if ctx.expired() {
                rep.truncated = true;
                break;
            }
            random_case(&mut rep, &mut rng, &alpha);
        }
        rep
    });
    rep.merge(lrep);
    crate::regress::replay_witnesses(ctx, &mut rep);
    for arm in ["SEARCH_AHO", "SEARCH_AHO_EXACT", "SEARCH_AHO_ENDS_WITH", "SEARCH_AHO_STARTS_WITH"] {
        if rep.arms.get(arm).cloned().unwrap_or(0) == 0 {
            rep.notes.push(format!("solver arm {} never reached by this run (batched search arms of the current implementation)", arm));
        }
    }
    finish(
        ctx,
        rep,
        Meta {
            rule: format!("complete enumeration: needles of length 0..3 over {{a,b,A}} ({}), haystacks of length 0..4 over {{a,b,A,B}} ({}), relations exact/prefix/suffix/contains/any/quoted/regex(anchored and not) x case flag = {} distinct patterns, every (pattern, haystack); lists of two patterns (all {} ordered pairs in thorough, a seeded sample in quick) and sampled lists of 3-4, each also under not(k) and (sampled) fully optimised; random strings over an alphabet with multi-byte letters. Oracle: direct string operations / regex crate; for lists 'some member matches on its own' and, independently, the OR of the engine's own single-member verdicts. non-trivial single = (pattern, haystack) where another relation on the same needle disagrees; non-trivial list = decided by exactly one member or members in >= 2 batch classes", needles.len(), hays.len(), npat, npat * npat),
            exhaustive: true,
            assumptions: vec!["regex crate trusted as the meaning of ?re (incl. (?i))".into(), "case-insensitive = ASCII folding (statement)".into()],
            min_nontrivial: 1000,
            extra: json!({}),
        },
    )
}

fn relation_name(p: &Pat) -> String {
    format!(
        "{}{}",
        if p.insens { "i" } else { "" },
        match p.kind {
            PKind::Regex(_) => "regex",
            PKind::Num(..) => "num",
            PKind::Any => "any",
            PKind::Contains(_) => "contains",
            PKind::Ends(_) => "ends",
            PKind::Starts(_) => "starts",
            PKind::Exact(_) => "exact",
        }
    )
}

fn rand_str(rng: &mut Rng, alpha: &[char], max: usize) -> String {
    let n = rng.below(max + 1);
    (0..n).map(|_| *rng.pick(alpha)).collect()
}

fn random_case(rep: &mut Report, rng: &mut Rng, alpha: &[char]) {
    // needles derived from the haystack so that hits at the very start / end, overlaps and
    // repeats are common
    let letters: Vec<char> = alpha.iter().cloned().filter(|c| !"*?".contains(*c)).collect();
    let hay = rand_str(rng, &letters, 24);
    let hc: Vec<char> = hay.chars().collect();
    let sub = |rng: &mut Rng| -> String {
        if hc.is_empty() || rng.chance(20) {
            return rand_str(rng, &letters, 5);
        }
        let a = rng.below(hc.len());
        let b = a + rng.below(hc.len() - a + 1);
        let mut s: String = hc[a..b].iter().collect();
        match rng.below(6) {
            0 => s = s.to_uppercase(),
            1 => s = s.to_lowercase(),
            2 => s.push(*rng.pick(&letters)),
            _ => {}
        }
        s
    };
    let n = 1 + rng.below(4);
    let mut members = vec![];
    for _ in 0..n {
        let needle = sub(rng);
        let body = match rng.below(7) {
            0 => needle.clone(),
            1 => format!("{}*", needle),
            2 => format!("*{}", needle),
            3 => format!("*{}*", needle),
            4 => format!("\"{}\"", needle),
            5 => format!("?{}", regex_escape(&needle)),
            _ => needle.clone(),
        };
        members.push(if rng.chance(35) { format!("i{}", body) } else { body });
    }
    let parsed: Vec<Pat> = match members.iter().map(|m| parse_pattern(m, false)).collect::<Result<Vec<_>, _>>() {
        Ok(p) => p,
        Err(_) => return,
    };
    if parsed.iter().any(|p| matches!(p.kind, PKind::Num(..))) {
        return;
    }
    let val = if members.len() == 1 && rng.chance(60) { RVal::Str(members[0].clone()) } else { RVal::List(members.iter().map(|m| RVal::Str(m.clone())).collect()) };
    let ast = single_rule(&Key::plain("k"), val);
    let Some(text) = ast.to_text() else { return };
    let rule = match eng::load(&text) {
        Ok(eng::Load::Ok(r)) => *r,
        Ok(eng::Load::Err(_)) => {
            rep.count("random_rejected");
            return;
        }
        Err(p) => {
            rep.violation("panic", &format!("panic:{}", p.sig()), &format!("load panicked: {}", p.sig()), json!({"rule": text}));
            return;
        }
    };
    // the haystack itself, variants, and the haystack inside an array
    let mut hs = vec![hay.clone(), hay.to_uppercase(), hay.to_lowercase()];
    hs.push(format!("{}{}", hay, rng.pick(&letters)));
    for h in hs {
        let want = parsed.iter().any(|p| str_match(p, &h));
        for as_array in [false, true] {
            let d = if as_array { DVal::Obj(vec![("k".into(), DVal::Arr(vec![DVal::UInt(1), DVal::s("\u{0}"), DVal::s(&h)]))]) } else { doc(&h) };
            let m = to_yaml_map(&d);
            rep.evaluations += 1;
            match eng::matches(&rule, &m) {
                Ok(g) => {
                    if want {
                        rep.nontrivial_key(&format!("R|{}|{}", members.join("\u{1}"), h));
                    }
                    if g != want {
                        rep.violation("random", &format!("c07-random:{}", parsed.iter().map(relation_name).collect::<Vec<_>>().join("+")), &format!("patterns {:?} on {:?}{}: engine {} , documented {}", members, h, if as_array { " (in an array)" } else { "" }, g, want), mon::case(&text, &d, None, json!(want), json!(g), json!({})));
                        return;
                    }
                }
                Err(p) => {
                    rep.violation("panic", &format!("panic:{}", p.sig()), &format!("matches panicked: {}", p.sig()), mon::case(&text, &d, None, json!("no-panic"), json!(p.sig()), json!({})));
                    return;
                }
            }
        }
    }
    rep.count("random_rules");
}
