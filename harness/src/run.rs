//! Run context, parallel shard runner, report merging, evidence and replay files.

use std::collections::{BTreeMap, BTreeSet};
use std::sync::atomic::{AtomicUsize, Ordering};
use std::sync::Mutex;
use std::time::{Duration, Instant};

use serde_json::{json, Value as J};

use crate::prng::fnv;

#[derive(Clone, Copy, Debug, PartialEq)]
pub enum Tier {
    Quick,
    Thorough,
}

#[derive(Clone)]
pub struct Ctx {
    pub prop: &'static str,
    pub tier: Tier,
    pub seed: u64,
    pub verif_dir: String,
    pub start: Instant,
    pub budget: Duration,
    pub threads: usize,
}

impl Ctx {
    pub fn quick(&self) -> bool {
        self.tier == Tier::Quick
    }
    pub fn expired(&self) -> bool {
        self.start.elapsed() > self.budget
    }
    /// pick a size by tier
    pub fn size(&self, quick: usize, thorough: usize) -> usize {
        if self.quick() {
            quick
        } else {
            thorough
        }
    }
}

#[derive(Clone, Debug)]
pub struct Violation {
    /// short machine-readable class, e.g. "verdict-differs", "panic"
    pub kind: String,
    /// signature used to match known findings (exact)
    pub sig: String,
    /// what fails, one line
    pub what: String,
    /// replayable case
    pub case: J,
}

#[derive(Default, Clone)]
pub struct Report {
    pub evaluations: u64,
    pub nontrivial: BTreeSet<u64>,
    pub samples: Vec<J>,
    pub violations: Vec<Violation>,
    pub counters: BTreeMap<String, u64>,
    pub arms: BTreeMap<String, u64>,
    pub notes: Vec<String>,
    pub inconclusive: Vec<String>,
    pub truncated: bool,
}

impl Report {
    pub fn new() -> Report {
        Report::default()
    }
    pub fn count(&mut self, k: &str) {
        *self.counters.entry(k.to_string()).or_insert(0) += 1;
    }
    pub fn add(&mut self, k: &str, n: u64) {
        *self.counters.entry(k.to_string()).or_insert(0) += n;
    }
    pub fn get(&self, k: &str) -> u64 {
        self.counters.get(k).cloned().unwrap_or(0)
    }
    pub fn nontrivial_key(&mut self, key: &str) {
        self.nontrivial.insert(fnv(key));
    }
    pub fn sample(&mut self, s: J) {
        if self.samples.len() < 4 {
            self.samples.push(s);
        }
    }
    pub fn violation(&mut self, kind: &str, sig: &str, what: &str, case: J) {
        // keep at most a handful per signature to bound memory
        if self.violations.iter().filter(|v| v.sig == sig).count() < 3 && self.violations.len() < 200 {
            self.violations.push(Violation { kind: kind.into(), sig: sig.into(), what: what.into(), case });
        }
        self.count(&format!("violations.{}", kind));
    }
    pub fn take_arms(&mut self) {
        for (n, c) in crate::eng::take_arms() {
            if c > 0 {
                *self.arms.entry(n.to_string()).or_insert(0) += c;
            }
        }
    }
    pub fn merge(&mut self, o: Report) {
        self.evaluations += o.evaluations;
        self.nontrivial.extend(o.nontrivial);
        for s in o.samples {
            if self.samples.len() < 8 {
                self.samples.push(s);
            }
        }
        for v in o.violations {
            if self.violations.iter().filter(|x| x.sig == v.sig).count() < 3 && self.violations.len() < 200 {
                self.violations.push(v);
            }
        }
        for (k, v) in o.counters {
            *self.counters.entry(k).or_insert(0) += v;
        }
        for (k, v) in o.arms {
            *self.arms.entry(k).or_insert(0) += v;
        }
        self.notes.extend(o.notes);
        self.inconclusive.extend(o.inconclusive);
        self.truncated |= o.truncated;
    }
}

/// Run `n` shards over the worker threads. Shards are pulled dynamically but results are merged
/// in shard order, so the merged report depends only on the seed.
pub fn par_shards<F>(ctx: &Ctx, n: usize, f: F) -> Report
where
    F: Fn(usize) -> Report + Sync,
{
    let next = AtomicUsize::new(0);
    let results: Mutex<Vec<Option<Report>>> = Mutex::new((0..n).map(|_| None).collect());
    std::thread::scope(|s| {
        for _ in 0..ctx.threads.min(n.max(1)) {
            s.spawn(|| loop {
                let i = next.fetch_add(1, Ordering::SeqCst);
                if i >= n {
                    break;
                }
                let mut r = f(i);
                r.take_arms();
                results.lock().unwrap()[i] = Some(r);
            });
        }
    });
    let mut out = Report::new();
    for r in results.into_inner().unwrap().into_iter().flatten() {
        out.merge(r);
    }
    out
}

#[derive(Clone, Debug)]
pub struct KnownFinding {
    pub id: String,
    pub properties: Vec<String>,
    pub status: String,
    pub sig: String,
    pub what: String,
}

pub fn load_known(verif_dir: &str) -> Vec<KnownFinding> {
    let p = format!("{}/known_findings.json", verif_dir);
    let text = match std::fs::read_to_string(&p) {
        Ok(t) => t,
        Err(_) => return vec![],
    };
    let v: J = match serde_json::from_str(&text) {
        Ok(v) => v,
        Err(_) => return vec![],
    };
    let mut out = vec![];
    if let Some(arr) = v.get("findings").and_then(|x| x.as_array()) {
        for f in arr {
            out.push(KnownFinding {
                id: f["id"].as_str().unwrap_or("").to_string(),
                properties: f["properties"].as_array().map(|a| a.iter().filter_map(|x| x.as_str().map(|s| s.to_string())).collect()).unwrap_or_default(),
                status: f["status"].as_str().unwrap_or("").to_string(),
                sig: f["signature"].as_str().unwrap_or("").to_string(),
                what: f["what"].as_str().unwrap_or("").to_string(),
            });
        }
    }
    out
}

pub struct Meta {
    pub rule: String,
    pub exhaustive: bool,
    pub assumptions: Vec<String>,
    /// minimum number of distinct non-trivial cases below which the run is inconclusive
    pub min_nontrivial: usize,
    pub extra: J,
}

/// Write evidence + replays, print the verdict lines, return the process exit code.
pub fn finish(ctx: &Ctx, mut rep: Report, meta: Meta) -> i32 {
    let known = load_known(&ctx.verif_dir);
    let mut new_violations: Vec<&Violation> = vec![];
    let mut known_hits: BTreeMap<String, u64> = BTreeMap::new();
    for v in &rep.violations {
        if let Some(k) = known.iter().find(|k| k.status == "open" && k.properties.iter().any(|p| p == ctx.prop) && k.sig == v.sig) {
            *known_hits.entry(k.id.clone()).or_insert(0) += 1;
        } else {
            new_violations.push(v);
        }
    }
    for k in known.iter().filter(|k| k.status == "open" && k.properties.iter().any(|p| p == ctx.prop)) {
        if known_hits.contains_key(&k.id) {
            println!("KNOWN-FINDING: property={} {} {}", ctx.prop, k.id, k.what);
        } else {
            println!("NOTE: open finding {} was not reproduced by this run", k.id);
        }
    }
    let replay_dir = format!("{}/replays/{}", ctx.verif_dir, ctx.prop);
    let mut printed = BTreeSet::new();
    let mut replay_paths = vec![];
    for v in &new_violations {
        let _ = std::fs::create_dir_all(&replay_dir);
        let body = json!({
            "property": ctx.prop,
            "kind": v.kind,
            "signature": v.sig,
            "what": v.what,
            "seed": ctx.seed,
            "tier": if ctx.quick() { "quick" } else { "thorough" },
            "case": v.case,
        });
        let text = serde_json::to_string_pretty(&body).unwrap();
        let path = format!("{}/{:016x}.json", replay_dir, fnv(&text));
        let _ = std::fs::write(&path, text);
        if printed.insert(v.sig.clone()) {
            println!("VIOLATION property={} replay={}", ctx.prop, path);
            println!("  what: {}", v.what);
        }
        replay_paths.push(path);
    }
    if rep.truncated {
        rep.notes.push("wall-clock budget reached: workload truncated (not a verdict)".into());
    }
    let distinct = rep.nontrivial.len();
    if distinct < meta.min_nontrivial.max(2) {
        rep.inconclusive.push(format!("only {} distinct non-trivial cases observed (need {})", distinct, meta.min_nontrivial.max(2)));
    }
    if rep.evaluations == 0 {
        rep.inconclusive.push("no engine executions observed".into());
    }
    for n in &rep.notes {
        println!("NOTE: {}", n);
    }
    for n in &rep.inconclusive {
        println!("INCONCLUSIVE: {}", n);
    }
    let wall = ctx.start.elapsed().as_secs_f64();
    let mut coverage = json!({
        "evaluations": rep.evaluations,
        "distinct_nontrivial": distinct,
        "rule": meta.rule,
        "samples": rep.samples,
        "exhaustive": meta.exhaustive,
        "counters": rep.counters,
        "arms": rep.arms,
        "known_findings_reproduced": known_hits,
        "inconclusive": rep.inconclusive,
        "notes": rep.notes,
        "truncated_by_budget": rep.truncated,
        "replays": replay_paths,
    });
    if let (Some(c), Some(e)) = (coverage.as_object_mut(), meta.extra.as_object()) {
        for (k, v) in e {
            c.insert(k.clone(), v.clone());
        }
    }
    let ev = json!({
        "property_id": ctx.prop,
        "tier": if ctx.quick() { "quick" } else { "thorough" },
        "seed": ctx.seed,
        "level": "exploration",
        "coverage": coverage,
        "assumptions": meta.assumptions,
        "wall_s": (wall * 100.0).round() / 100.0,
        "violations": new_violations.len(),
    });
    let evp = format!("{}/evidence/{}.json", ctx.verif_dir, ctx.prop);
    let _ = std::fs::create_dir_all(format!("{}/evidence", ctx.verif_dir));
    // a run that cannot stand as evidence must not leave a stale file behind
    let _ = std::fs::remove_file(&evp);
    if let Err(e) = std::fs::write(&evp, serde_json::to_string_pretty(&ev).unwrap()) {
        println!("HARNESS-ERROR: cannot write evidence {}: {}", evp, e);
        return 2;
    }
    println!(
        "{} {}: evaluations={} distinct_nontrivial={} violations={} known={} wall={:.1}s",
        ctx.prop,
        if ctx.quick() { "quick" } else { "thorough" },
        rep.evaluations,
        distinct,
        new_violations.len(),
        known_hits.values().sum::<u64>(),
        wall
    );
    if !new_violations.is_empty() {
        1
    } else if !rep.inconclusive.is_empty() {
        2
    } else {
        0
    }
}

// ---------------------------------------------------------------------------------------------
// Watchdog (C03 / C04): every worker publishes the case it is about to execute; a watchdog
// thread notices a worker that stays on one case for too long, records the case and ends the
// process with exit code 3 so that the parent can re-run that single case in isolation.

pub struct Slot {
    pub since: Instant,
    pub layer: String,
    pub input: String,
}

static SLOTS: Mutex<Vec<std::sync::Arc<Mutex<Slot>>>> = Mutex::new(Vec::new());

thread_local! {
    static MY_SLOT: std::cell::RefCell<Option<std::sync::Arc<Mutex<Slot>>>> = const { std::cell::RefCell::new(None) };
}

/// publish the case this thread is about to execute
pub fn set_case(layer: &str, input: &str) {
    MY_SLOT.with(|s| {
        let mut s = s.borrow_mut();
        if s.is_none() {
            let slot = std::sync::Arc::new(Mutex::new(Slot { since: Instant::now(), layer: String::new(), input: String::new() }));
            SLOTS.lock().unwrap().push(slot.clone());
            *s = Some(slot);
        }
        let mut g = s.as_ref().unwrap().lock().unwrap();
        g.since = Instant::now();
        g.layer.clear();
        g.layer.push_str(layer);
        g.input.clear();
        g.input.push_str(input);
    });
    if let Ok(p) = std::env::var("TMON_PROGRESS") {
        let _ = std::fs::write(p, format!("{}\n{}", layer, input));
    }
}

pub fn clear_case() {
    MY_SLOT.with(|s| {
        if let Some(slot) = s.borrow().as_ref() {
            let mut g = slot.lock().unwrap();
            g.since = Instant::now();
            g.input.clear();
            g.layer.clear();
        }
    });
}

/// start the watchdog; `limit` is the time one case may take before the process gives up on it
pub fn start_watchdog(candidate_file: String, limit: Duration) {
    std::thread::spawn(move || loop {
        std::thread::sleep(Duration::from_millis(500));
        let slots = SLOTS.lock().unwrap().clone();
        for s in slots {
            let g = s.lock().unwrap();
            if !g.layer.is_empty() && g.since.elapsed() > limit {
                let body = json!({"layer": g.layer, "input": g.input, "stuck_for_s": g.since.elapsed().as_secs()});
                let _ = std::fs::write(&candidate_file, serde_json::to_string_pretty(&body).unwrap());
                println!("WATCHDOG: a worker made no progress for {:?} on a {} input; leaving with exit code 3", limit, g.layer);
                std::process::exit(3);
            }
        }
    });
}
