pub mod ast;
pub mod dval;
pub mod eng;
pub mod gen;
pub mod mon;
pub mod prng;
pub mod refi;
pub mod regress;
pub mod reps;
pub mod run;
pub mod shrink;

pub mod c01;
pub mod c02;
pub mod c05;
pub mod cgram;
pub mod c06;
