//! C15 — the ignore_case build equals the default build with every string pattern i-prefixed.
//! Two builds of this same binary regenerate the identical (rule, documents) stream from the
//! seed; the default build applies the i-prefixing transformation; the verdict lines are diffed.

use std::process::Command;

use serde_json::json;

use crate::ast::*;
use crate::dval::{to_yaml_map, DVal};
use crate::eng::{self, Load};
use crate::gen::{self, GenCfg};
use crate::prng::Rng;
use crate::run::{finish, Ctx, Meta, Report};

pub fn is_icase_build() -> bool {
    cfg!(feature = "icase")
}

fn numeric_pattern(s: &str) -> bool {
    [">=", ">", "<=", "<", "="].iter().any(|p| s.starts_with(p))
}

fn prefix_entries(es: &mut Entries) {
    for (k, v) in es.iter_mut() {
        let numeric_key = matches!(k.modi, KMod::Int | KMod::Flt);
        let fix = |s: &mut String| {
            if !numeric_key && !numeric_pattern(s) {
                s.insert(0, 'i');
            }
        };
        match v {
            RVal::Str(s) => fix(s),
            RVal::List(ms) => {
                for m in ms.iter_mut() {
                    match m {
                        RVal::Str(s) => fix(s),
                        RVal::Map(inner) => prefix_entries(inner),
                        _ => {}
                    }
                }
            }
            RVal::Map(inner) => prefix_entries(inner),
            _ => {}
        }
    }
}

/// R with 'i' prepended to every string pattern
pub fn prefixed(r: &RuleAst) -> RuleAst {
    let mut n = r.clone();
    for (_, id) in n.idents.iter_mut() {
        match id {
            Ident::Map(es) => prefix_entries(es),
            Ident::Seq(s) => s.iter_mut().for_each(prefix_entries),
        }
    }
    n
}

pub fn case(rng: &mut Rng, ndocs: usize) -> (RuleAst, Vec<DVal>) {
    let cfg = GenCfg { share_fields: 60, ..Default::default() };
    let ast = gen::gen_rule(rng, &cfg);
    let leaves = gen::collect_leaves(&ast);
    let docs = (0..ndocs).map(|_| gen::gen_doc(rng, &leaves)).collect();
    (ast, docs)
}

/// switch sets whose optimised verdicts the ignore_case build adds to its line (for rules in
/// C01's clean stratum, where optimisation is verdict-preserving in the default build)
const OPT_SETS: [u8; 3] = [15, 2, 4];

/// `actual_optimised`: evaluate the optimised variants (ignore_case build); otherwise (default
/// build) the expected value of those columns is the unoptimised verdict, repeated.
fn verdict_line(ast: &RuleAst, docs: &[DVal], clean: bool, actual_optimised: bool) -> String {
    let Some(text) = ast.to_text() else { return "E".into() };
    match eng::load(&text) {
        Ok(Load::Ok(r)) => {
            let mut s = String::from("L ");
            let maps: Vec<_> = docs.iter().map(to_yaml_map).collect();
            let row = |r: &tau_engine::Rule| -> String {
                maps.iter()
                    .map(|m| match eng::matches(r, m) {
                        Ok(true) => '1',
                        Ok(false) => '0',
                        Err(_) => 'P',
                    })
                    .collect()
            };
            let base = row(&r);
            s.push_str(&base);
            if clean {
                for sw in OPT_SETS {
                    s.push(' ');
                    if actual_optimised {
                        match eng::optimise(&r, eng::Sw(sw)) {
                            Ok(o) => s.push_str(&row(&o)),
                            Err(_) => s.push_str(&"P".repeat(docs.len())),
                        }
                    } else {
                        s.push_str(&base);
                    }
                }
            }
            s
        }
        Ok(Load::Err(_)) => "R".into(),
        Err(_) => "P".into(),
    }
}

fn sizes(ctx: &Ctx) -> (usize, usize) {
    (ctx.size(40_000, 600_000), ctx.size(8, 10))
}

const SHARDS: usize = 64;

/// one line of the stream: the verdict line, and (default build only) the feature-tag key of the
/// rule when case actually mattered for it
pub struct Line {
    pub line: String,
    pub case_mattered: Option<String>,
}

/// One shard of the verdict stream of this build (ignore_case build: R as is; default build: R
/// i-prefixed).
fn shard_lines(ctx: &Ctx, shard: usize, with_plain: bool) -> Vec<Line> {
    let (count, ndocs) = sizes(ctx);
    let mut rng = Rng::new(ctx.seed, "C15", shard as u64);
    let mut out = vec![];
    for _ in 0..count / SHARDS {
        let (ast, docs) = case(&mut rng, ndocs);
        let subject = if is_icase_build() { ast.clone() } else { prefixed(&ast) };
        // (condition-level quantifiers are left out altogether: part of that finding depends
        // on the document)
        let clean = crate::c01::triggers(&ast).is_empty() && !gen::tags(&ast).iter().any(|t| t.starts_with("cond-all") || t.starts_with("cond-of"));
        let line = verdict_line(&subject, &docs, clean, is_icase_build());
        let case_mattered = if with_plain && line.starts_with('L') && verdict_line(&ast, &docs, clean, false) != line { Some(gen::tag_key(&gen::tags(&ast))) } else { None };
        out.push(Line { line, case_mattered });
    }
    out
}

/// the (rule, documents) behind line `idx` of shard `shard`
fn regenerate(ctx: &Ctx, shard: usize, idx: usize) -> (RuleAst, Vec<DVal>) {
    let (_, ndocs) = sizes(ctx);
    let mut rng = Rng::new(ctx.seed, "C15", shard as u64);
    let mut c = case(&mut rng, ndocs);
    for _ in 0..idx {
        c = case(&mut rng, ndocs);
    }
    c
}

/// the whole stream, computed on all cores, in shard order
pub fn stream(ctx: &Ctx, with_plain: bool) -> Vec<Line> {
    let next = std::sync::atomic::AtomicUsize::new(0);
    let results: std::sync::Mutex<Vec<Option<Vec<Line>>>> = std::sync::Mutex::new((0..SHARDS).map(|_| None).collect());
    std::thread::scope(|s| {
        for _ in 0..ctx.threads {
            s.spawn(|| loop {
                let i = next.fetch_add(1, std::sync::atomic::Ordering::SeqCst);
                if i >= SHARDS {
                    break;
                }
                let r = shard_lines(ctx, i, with_plain);
                results.lock().unwrap()[i] = Some(r);
            });
        }
    });
    results.into_inner().unwrap().into_iter().flatten().flatten().collect()
}

/// sub-command run in the ignore_case build: print one line per rule
pub fn emit(ctx: &Ctx) -> i32 {
    if !is_icase_build() {
        eprintln!("c15-emit must be run by the ignore_case build of the harness");
        return 2;
    }
    use std::io::Write;
    let out = std::io::stdout();
    let mut w = std::io::BufWriter::new(out.lock());
    for (i, l) in stream(ctx, false).into_iter().enumerate() {
        let _ = writeln!(w, "{} {}", i, l.line);
    }
    0
}

pub fn run(ctx: &Ctx) -> i32 {
    if is_icase_build() {
        eprintln!("c15 must be driven by the default build");
        return 2;
    }
    let mut rep = Report::new();
    let Ok(icase_bin) = std::env::var("TMON_ICASE_BIN") else {
        println!("INCONCLUSIVE: TMON_ICASE_BIN not set (the driver builds the ignore_case variant)");
        return 2;
    };
    // the ignore_case build runs concurrently
    let child = Command::new(&icase_bin)
        .arg("c15-emit")
        .args(["--tier", if ctx.quick() { "quick" } else { "thorough" }, "--seed", &ctx.seed.to_string(), "--verif", &ctx.verif_dir])
        .stdout(std::process::Stdio::piped())
        .spawn();
    let child = match child {
        Ok(c) => c,
        Err(e) => {
            println!("HARNESS-ERROR: cannot start {}: {}", icase_bin, e);
            return 2;
        }
    };
    let mut mine: Vec<String> = vec![];
    let (_, ndocs_each) = sizes(ctx);
    for l in stream(ctx, true) {
        if l.line.starts_with('L') {
            if let Some(tags) = &l.case_mattered {
                rep.nontrivial_key(tags);
                rep.count("rules_where_case_mattered");
            }
            rep.count("default_build.loaded");
        } else {
            rep.count("default_build.rejected");
        }
        rep.evaluations += ndocs_each as u64;
        mine.push(l.line);
    }
    let first_case = Some(regenerate(ctx, 0, 0));
    let out = match child.wait_with_output() {
        Ok(o) => o,
        Err(e) => {
            println!("HARNESS-ERROR: ignore_case build failed: {}", e);
            return 2;
        }
    };
    if !out.status.success() {
        println!("HARNESS-ERROR: ignore_case build exited with {:?}", out.status.code());
        return 2;
    }
    let theirs: Vec<String> = String::from_utf8_lossy(&out.stdout).lines().map(|l| l.split_once(' ').map(|(_, r)| r.to_string()).unwrap_or_default()).collect();
    rep.add("ignore_case_build.lines", theirs.len() as u64);
    if theirs.len() != mine.len() {
        rep.inconclusive.push(format!("the two builds produced {} and {} lines", mine.len(), theirs.len()));
    }
    let (_, ndocs) = sizes(ctx);
    for (i, (a, b)) in mine.iter().zip(theirs.iter()).enumerate() {
        rep.evaluations += ndocs as u64;
        if a != b {
            // regenerate the case from its shard (cases are not kept in memory)
            let per = sizes(ctx).0 / SHARDS;
            let (shard, idx) = (i / per.max(1), i % per.max(1));
            let (ast, docs) = regenerate(ctx, shard, idx);
            // "L " + one group of verdicts per variant (unoptimised, then OPT_SETS), groups
            // separated by one space
            let which = a.chars().zip(b.chars()).position(|(x, y)| x != y).unwrap_or(0);
            let (group, col) = (which.saturating_sub(2) / (docs.len() + 1), which.saturating_sub(2) % (docs.len() + 1));
            let doc = docs.get(col).cloned().unwrap_or(DVal::Obj(vec![]));
            let variant = if group == 0 { "unoptimised".to_string() } else { format!("optimised [{}]", eng::Sw(OPT_SETS[(group - 1).min(2)]).name()) };
            rep.violation(
                "builds-differ",
                &format!("c15:{}", gen::tag_key(&gen::tags(&ast)).chars().take(80).collect::<String>()),
                &format!("rule #{} ({}): default build on the i-prefixed rule gives [{}] , ignore_case build on the rule gives [{}]", i, variant, a, b),
                json!({"rule": ast.to_text(), "i_prefixed_rule": prefixed(&ast).to_text(), "doc": crate::mon::doc_text(&doc), "doc_json": doc.to_json_text(), "default_build_line": a, "ignore_case_build_line": b, "index": i, "variant": variant}),
            );
        }
    }
    if let Some((ast, docs)) = first_case.as_ref() {
        rep.sample(json!({"rule": ast.to_text(), "i_prefixed_rule_for_default_build": prefixed(ast).to_text(), "documents": docs.len(), "default_build_line": mine.first(), "ignore_case_build_line": theirs.first()}));
    } else {
        rep.sample(json!({"default_build_line": mine.first(), "ignore_case_build_line": theirs.first()}));
    }
    crate::regress::replay_witnesses(ctx, &mut rep);
    if rep.get("default_build.loaded") * 2 < mine.len() as u64 {
        rep.inconclusive.push("fewer than half of the generated rules load".into());
    }
    finish(
        ctx,
        rep,
        Meta {
            rule: "two builds of the harness (default, and with tau-engine's ignore_case feature) regenerate the same seeded stream of generated rules (ASCII patterns of every kind, single and in lists, under all/of/not/str, nested) and rule-aware mixed-case documents; the ignore_case build evaluates each rule as written, the default build evaluates it with 'i' prepended to every string pattern; one verdict line per rule from each build, compared line by line (load outcome and every verdict); for rules in C01's clean stratum the ignore_case build also evaluates three optimised forms (all switches, shake, rewrite), which must give the default build's verdicts too. non-trivial = rule for which the un-prefixed default rule gives different verdicts from the prefixed one (case mattered); distinct by feature tags".into(),
            exhaustive: false,
            assumptions: vec!["numeric patterns and bare numbers/booleans are not string patterns and are left alone in both builds".into()],
            min_nontrivial: 30,
            extra: json!({}),
        },
    )
}
