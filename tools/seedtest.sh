#!/usr/bin/env bash
# seedtest.sh <seed-id> <Cxx> [<Cxx> ...] : apply /verif/seeded/<seed-id>/patch.diff to /repo, run
# the quick checks named, revert. Output and evidence go to a scratch directory.
set -u
ID="$1"; shift
PATCH=/verif/seeded/$ID/patch.diff
[ -f "$PATCH" ] || { echo "no $PATCH"; exit 2; }
cd /repo || exit 2
if ! git diff --quiet; then echo "/repo has uncommitted changes"; exit 2; fi
git apply "$PATCH" || { echo "patch does not apply"; exit 2; }
trap 'git -C /repo checkout -- .' EXIT
export VERIF_OUT=/tmp/seedout/$ID
rm -rf "$VERIF_OUT"; mkdir -p "$VERIF_OUT"
for c in "$@"; do
  TIER="${SEED_TIER:-quick}"
  out=$(cd /verif && ./check "$c" --tier "$TIER" 2>&1); code=$?
  nv=$(echo "$out" | grep -c "^VIOLATION")
  echo "seed=$ID check=$c exit=$code violations_lines=$nv :: $(echo "$out" | grep -m1 '  what:' | cut -c1-220)"
done
