#!/usr/bin/env bash
# confirm_seed.sh <PROP> <variant>  : confirm a seeded change in the scratch worktree /tmp/wt/<PROP>
# (suite passes with the change; demo fails with it and passes without), then store it under
# /verif/seeded/<PROP>-<variant>/ .
set -u
P="$1"; V="$2"
SRC=/tmp/seeded/$P/$V
WT=/tmp/wt/$P
[ -d "$WT" ] || { echo "no worktree $WT"; exit 2; }
cd "$WT" || exit 2
git checkout -q -- . ; git clean -fdq -e Cargo.lock -e target
git apply --check "$SRC/patch.diff" || { echo "patch does not apply"; exit 1; }
git apply "$SRC/patch.diff"
suite=$(CARGO_NET_OFFLINE=true cargo test --workspace --offline ${FEATURES:-} 2>&1 | grep -a -E "^test result" | awk '{p+=$4; f+=$6} END {print p" passed "f" failed"}')
cp "$SRC/demo.rs" tests/seed_demo.rs
withall=$(CARGO_NET_OFFLINE=true cargo test --offline ${FEATURES:-} --test seed_demo 2>&1)
with=$(echo "$withall" | grep -a -E "^test result" | tail -1)
# a demonstration that takes the test process down (abort / segfault) leaves no result line
[ -z "$with" ] && with=$(echo "$withall" | grep -a -o "process didn't exit successfully.*(signal: [0-9]*, [A-Z]*[^)]*)" | sed 's/.*(signal/FAILED (test process killed by signal/' | tail -1)
git checkout -q -- . 
without=$(CARGO_NET_OFFLINE=true cargo test --offline ${FEATURES:-} --test seed_demo 2>&1 | grep -a -E "^test result" | tail -1)
rm -f tests/seed_demo.rs
echo "suite with change: $suite"
echo "demo with change: $with"
echo "demo without change: $without"
ok=1
echo "$suite" | grep -q " 0 failed" || ok=0
echo "$suite" | grep -q "^137 passed\|^146 passed" || echo "NOTE: pass count is '$suite'"
echo "$with" | grep -q "FAILED" || ok=0
echo "$without" | grep -q "test result: ok" || ok=0
if [ $ok = 1 ]; then
  D=/verif/seeded/$P-$V
  mkdir -p "$D"
  cp "$SRC/patch.diff" "$D/patch.diff"; cp "$SRC/demo.rs" "$D/demo.rs"; cp "$SRC/notes.md" "$D/notes.md" 2>/dev/null
  printf '%s\n%s\n%s\n' "suite with change: $suite" "demo with change: $with" "demo without change: $without" > "$D/confirmed.txt"
  echo "CONFIRMED -> $D"
else
  echo "NOT CONFIRMED"
  exit 1
fi
