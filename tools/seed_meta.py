#!/usr/bin/env python3
"""Turn seeded/RESULTS.tsv + each seed's notes.md / confirmed.txt into seeded/<id>/meta.json and
print a markdown table (for DESIGN.md)."""
import json, os, re
root = '/verif/seeded'
res = {}
for l in open(os.path.join(root, 'RESULTS.tsv')):
    p = l.rstrip('\n').split('\t')
    if len(p) < 4: continue
    res.setdefault(p[0], []).append({'check': p[1], 'exit': p[2], 'first_violation': p[3]})
rows = []
for id in sorted(os.listdir(root)):
    d = os.path.join(root, id)
    if not os.path.isdir(d): continue
    prop = id.split('-')[0]
    notes = open(os.path.join(d, 'notes.md')).read() if os.path.exists(os.path.join(d, 'notes.md')) else ''
    confirmed = open(os.path.join(d, 'confirmed.txt')).read().strip().split('\n') if os.path.exists(os.path.join(d, 'confirmed.txt')) else []
    # first paragraph-ish of the notes as the description of what it needs
    summary = ' '.join(notes.split('\n\n')[0].split())[:600]
    needs = ''
    m = re.search(r'(?is)(needs?|manifest[s]?|trigger)[^\n]*\n(.{0,700})', notes)
    if m: needs = ' '.join(m.group(0).split())[:700]
    r = res.get(id, [])
    caught_by = [x['check'] for x in r if x['exit'] == '1']
    meta = {
        'id': id, 'breaks_property': prop,
        'files': {'patch': 'patch.diff', 'demonstration': 'demo.rs', 'notes': 'notes.md'},
        'summary': summary, 'needs_to_manifest': needs,
        'confirmation': confirmed,
        'what_was_run': 'tools/confirm_seed.sh (suite passes with the change; demo fails with it, passes without) and tools/seedtest.sh <id> <check> (git -C /repo apply patch.diff; ./check <Cxx> --tier quick with VERIF_OUT scratch dir; git -C /repo checkout -- .)',
        'checks_run': r, 'caught_by': caught_by,
    }
    json.dump(meta, open(os.path.join(d, 'meta.json'), 'w'), indent=1)
    rows.append((id, prop, ', '.join('%s:%s' % (x['check'], 'caught' if x['exit'] == '1' else ('missed' if x['exit'] == '0' else 'exit ' + x['exit'])) for x in r), (r[0]['first_violation'] if r else '')[:110]))
print('| seed | property | quick checks run -> outcome | first violation line of the own-property check |')
print('|---|---|---|---|')
for row in rows:
    print('| %s | %s | %s | %s |' % (row[0], row[1], row[2], row[3].replace('|', '/')))
