#!/usr/bin/env bash
# sanitize.sh <Cxx> <seed> <out-dir> : the sanitizer stages of the thorough tier for C03, C04, C12.
# Writes <out-dir>/evidence/<Cxx>.sanitizers.json and returns 0 (no report), 1 (a sanitizer
# reported something: UB / memory error / data race), 2 (a stage could not be built or run:
# inconclusive for that stage only).
set -u
P="$1"; SEED="$2"; OUT="$3"
H=/verif/harness
export CARGO_NET_OFFLINE=true
mkdir -p "$OUT/evidence" "$OUT/sanitizer-logs"
LOGS="$OUT/sanitizer-logs"
results=()
rc=0
note() { results+=("$1"); }

asan_build() {
  (cd "$H" && RUSTFLAGS="-Zsanitizer=address -Cforce-frame-pointers=yes" CARGO_TARGET_DIR="$H/target/asan" cargo +nightly build --release --offline --target x86_64-unknown-linux-gnu >"$LOGS/asan-build.log" 2>&1)
}
tsan_build() {
  (cd "$H" && RUSTFLAGS="-Zsanitizer=thread" CARGO_TARGET_DIR="$H/target/tsan" cargo +nightly build --release --offline -Zbuild-std --target x86_64-unknown-linux-gnu >"$LOGS/tsan-build.log" 2>&1)
}
miri_shards() { # workload nshards cases_per_shard
  local w="$1" n="$2" c="$3" pids=() i
  # build once (first shard), then run the rest in parallel
  (cd "$H" && MIRIFLAGS="-Zmiri-disable-isolation" CARGO_TARGET_DIR="$H/target/miri" cargo +nightly miri run --offline -- sani "$w" "$SEED" 1 >"$LOGS/miri-$w-build.log" 2>&1)
  if ! grep -q "SANI ok" "$LOGS/miri-$w-build.log"; then
    if grep -q "Undefined Behavior\|error: unsupported operation" "$LOGS/miri-$w-build.log"; then return 1; fi
    return 2
  fi
  for i in $(seq 1 "$n"); do
    (cd "$H" && MIRIFLAGS="-Zmiri-disable-isolation -Zmiri-seed=$((SEED * 100 + i))" CARGO_TARGET_DIR="$H/target/miri" timeout 3000 cargo +nightly miri run --offline -- sani "$w" "$((SEED * 1000 + i))" "$c" >"$LOGS/miri-$w-$i.log" 2>&1) &
    pids+=($!)
  done
  local bad=0 inc=0
  for p in "${pids[@]}"; do wait "$p" || true; done
  for i in $(seq 1 "$n"); do
    if grep -q "Undefined Behavior\|data race" "$LOGS/miri-$w-$i.log"; then bad=1
    elif ! grep -q "SANI ok" "$LOGS/miri-$w-$i.log"; then inc=1; fi
  done
  MIRI_CASES=$(grep -h "SANI ok" "$LOGS"/miri-$w-*.log 2>/dev/null | sed -n 's/.*cases=\([0-9]*\).*/\1/p' | awk '{s+=$1} END {print s+0}')
  [ $bad = 1 ] && return 1
  [ $inc = 1 ] && return 2
  return 0
}

relcheck_stage() { # the quick workload again in a build with overflow checks and debug assertions
  local cmd="$1"
  if (cd "$H" && CARGO_TARGET_DIR="$H/target/relcheck" cargo build --profile relcheck --offline >"$LOGS/relcheck-build.log" 2>&1); then
    mkdir -p "$OUT/relcheck"; cp /verif/known_findings.json "$OUT/relcheck/" 2>/dev/null
    "$H/target/relcheck/relcheck/tmon" "$cmd" --tier quick --seed "$SEED" --verif "$OUT/relcheck" >"$LOGS/relcheck-run.log" 2>&1
    local code=$?
    local evals=$(sed -n 's/.*evaluations=\([0-9]*\).*/\1/p' "$LOGS/relcheck-run.log" | tail -1)
    if [ "$code" -eq 1 ]; then rc=1; note "{\"tool\":\"overflow-checks+debug-assertions build\",\"workload\":\"$cmd quick workload\",\"inputs\":${evals:-0},\"reports\":1,\"log\":\"$LOGS/relcheck-run.log\"}"
    elif [ "$code" -eq 0 ]; then note "{\"tool\":\"overflow-checks+debug-assertions build\",\"workload\":\"$cmd quick workload\",\"inputs\":${evals:-0},\"reports\":0}"
    else [ $rc -eq 0 ] && rc=2; note "{\"tool\":\"overflow-checks+debug-assertions build\",\"status\":\"exit $code\"}"; fi
  else
    [ $rc -eq 0 ] && rc=2; note "{\"tool\":\"overflow-checks+debug-assertions build\",\"status\":\"build failed\"}"
  fi
}

sync_stage() { # the quick workload again with tau-engine's `sync` feature (second copy of Object::find, Send + Sync bounds)
  local cmd="$1"
  if (cd "$H" && CARGO_TARGET_DIR="$H/target/sync" cargo build --release --offline --features sync >"$LOGS/sync-build.log" 2>&1); then
    mkdir -p "$OUT/sync"; cp /verif/known_findings.json "$OUT/sync/" 2>/dev/null
    "$H/target/sync/release/tmon" "$cmd" --tier quick --seed "$SEED" --verif "$OUT/sync" >"$LOGS/sync-run.log" 2>&1
    local code=$?
    local evals=$(sed -n 's/.*evaluations=\([0-9]*\).*/\1/p' "$LOGS/sync-run.log" | tail -1)
    if [ "$code" -eq 1 ]; then rc=1; note "{\"tool\":\"build with feature sync\",\"workload\":\"$cmd quick workload\",\"inputs\":${evals:-0},\"reports\":1,\"log\":\"$LOGS/sync-run.log\"}"
    elif [ "$code" -eq 0 ]; then note "{\"tool\":\"build with feature sync\",\"workload\":\"$cmd quick workload\",\"inputs\":${evals:-0},\"reports\":0}"
    else [ $rc -eq 0 ] && rc=2; note "{\"tool\":\"build with feature sync\",\"status\":\"exit $code\"}"; fi
  else
    [ $rc -eq 0 ] && rc=2; note "{\"tool\":\"build with feature sync\",\"status\":\"build failed\"}"
  fi
}

case "$P" in
  C10)
    sync_stage c10
    ;;
  C09)
    relcheck_stage c09
    ;;
  C03|C04)
    cmd=$(echo "$P" | tr 'A-Z' 'a-z')
    relcheck_stage "$cmd"
    if asan_build; then
      ASAN_OPTIONS="halt_on_error=1:abort_on_error=0:detect_leaks=0" "$H/target/asan/x86_64-unknown-linux-gnu/release/tmon" "$cmd" --tier quick --seed "$SEED" --verif "$OUT/asan" >"$LOGS/asan-run.log" 2>&1
      code=$?
      reports=$(grep -c "ERROR: AddressSanitizer" "$LOGS/asan-run.log")
      evals=$(sed -n 's/.*evaluations=\([0-9]*\).*/\1/p' "$LOGS/asan-run.log" | tail -1)
      if [ "$reports" -gt 0 ]; then rc=1; note "{\"tool\":\"asan\",\"workload\":\"$cmd quick workload\",\"inputs\":${evals:-0},\"reports\":$reports,\"log\":\"$LOGS/asan-run.log\"}"
      elif [ "$code" -eq 0 ]; then note "{\"tool\":\"asan\",\"workload\":\"$cmd quick workload\",\"inputs\":${evals:-0},\"reports\":0}"
      else [ $rc -eq 0 ] && rc=2; note "{\"tool\":\"asan\",\"workload\":\"$cmd quick workload\",\"status\":\"exit $code without a sanitizer report (see $LOGS/asan-run.log)\"}"; fi
    else
      [ $rc -eq 0 ] && rc=2; note "{\"tool\":\"asan\",\"status\":\"build failed\"}"
    fi
    w=load; [ "$P" = C03 ] && w=eval
    per=10; [ "$P" = C03 ] && per=2
    miri_shards "$w" 16 "$per"; m=$?
    if [ $m -eq 1 ]; then rc=1; note "{\"tool\":\"miri\",\"workload\":\"sani $w\",\"inputs\":${MIRI_CASES:-0},\"reports\":1,\"log\":\"$LOGS\"}"
    elif [ $m -eq 0 ]; then note "{\"tool\":\"miri\",\"workload\":\"sani $w, 16 shards\",\"inputs\":${MIRI_CASES:-0},\"reports\":0}"
    else [ $rc -eq 0 ] && rc=2; note "{\"tool\":\"miri\",\"workload\":\"sani $w\",\"inputs\":${MIRI_CASES:-0},\"status\":\"a shard did not finish (see $LOGS)\"}"; fi
    ;;
  C12)
    sync_stage c12-threads
    if tsan_build; then
      TSAN_OPTIONS="halt_on_error=0:report_signal_unsafe=0" "$H/target/tsan/x86_64-unknown-linux-gnu/release/tmon" c12-threads --tier quick --seed "$SEED" >"$LOGS/tsan-run.log" 2>&1
      code=$?
      reports=$(grep -c "WARNING: ThreadSanitizer" "$LOGS/tsan-run.log")
      evals=$(sed -n 's/.*evaluations=\([0-9]*\).*/\1/p' "$LOGS/tsan-run.log" | tail -1)
      overl=$(sed -n 's/.*overlapping_calls=\([0-9]*\).*/\1/p' "$LOGS/tsan-run.log" | tail -1)
      if [ "$reports" -gt 0 ] || [ "$code" -eq 1 ]; then rc=1; note "{\"tool\":\"tsan\",\"workload\":\"c12-threads\",\"inputs\":${evals:-0},\"overlapping_calls\":${overl:-0},\"reports\":$reports,\"log\":\"$LOGS/tsan-run.log\"}"
      elif [ "$code" -eq 0 ] || [ "$code" -eq 66 ]; then note "{\"tool\":\"tsan\",\"workload\":\"c12-threads (16 threads sharing one rule)\",\"inputs\":${evals:-0},\"overlapping_calls\":${overl:-0},\"reports\":0}"
      else [ $rc -eq 0 ] && rc=2; note "{\"tool\":\"tsan\",\"status\":\"exit $code (see $LOGS/tsan-run.log)\"}"; fi
    else
      [ $rc -eq 0 ] && rc=2; note "{\"tool\":\"tsan\",\"status\":\"build failed\"}"
    fi
    miri_shards threads 8 2; m=$?
    if [ $m -eq 1 ]; then rc=1; note "{\"tool\":\"miri\",\"workload\":\"sani threads\",\"inputs\":${MIRI_CASES:-0},\"reports\":1,\"log\":\"$LOGS\"}"
    elif [ $m -eq 0 ]; then note "{\"tool\":\"miri\",\"workload\":\"sani threads (3 threads share a rule), 8 schedule seeds\",\"inputs\":${MIRI_CASES:-0},\"reports\":0}"
    else [ $rc -eq 0 ] && rc=2; note "{\"tool\":\"miri\",\"workload\":\"sani threads\",\"status\":\"a shard did not finish\"}"; fi
    ;;
  *) echo "no sanitizer stage for $P"; exit 0;;
esac
(IFS=,; echo "[${results[*]}]") > "$OUT/evidence/$P.sanitizers.json"
echo "sanitizer stages for $P: $(cat "$OUT/evidence/$P.sanitizers.json")"
exit $rc
