#!/usr/bin/env bash
# like confirm_seed.sh, but the suite runs with default features and the demo with ignore_case
set -u
P=C15; V="$1"; SRC=/tmp/seeded/$P/$V; WT=/tmp/wt/$P
cd "$WT" || exit 2
git checkout -q -- . ; git clean -fdq -e Cargo.lock -e target
git apply "$SRC/patch.diff" || exit 1
suite=$(CARGO_NET_OFFLINE=true cargo test --workspace --offline 2>&1 | grep -a -E "^test result" | awk '{p+=$4; f+=$6} END {print p" passed "f" failed"}')
cp "$SRC/demo.rs" tests/seed_demo.rs
with=$(CARGO_NET_OFFLINE=true cargo test --offline --features ignore_case --test seed_demo 2>&1 | grep -a -E "^test result" | tail -1)
defwith=$(CARGO_NET_OFFLINE=true cargo test --offline --test seed_demo 2>&1 | grep -a -E "^test result" | tail -1)
git checkout -q -- .
without=$(CARGO_NET_OFFLINE=true cargo test --offline --features ignore_case --test seed_demo 2>&1 | grep -a -E "^test result" | tail -1)
rm -f tests/seed_demo.rs
echo "suite (default features) with change: $suite"; echo "demo (ignore_case) with change: $with"; echo "demo (default build, i-prefixed) with change: $defwith"; echo "demo (ignore_case) without change: $without"
if echo "$suite" | grep -q " 0 failed" && echo "$with" | grep -q FAILED && echo "$without" | grep -q "test result: ok"; then  # the default-build run of the demo is informational (a demo may assert ignore_case behaviour only)
  D=/verif/seeded/$P-$V; mkdir -p "$D"; cp "$SRC"/patch.diff "$SRC"/demo.rs "$SRC"/notes.md "$D"/
  printf '%s\n' "suite (default features) with change: $suite" "demo (ignore_case) with change: $with" "demo (default build, i-prefixed) with change: $defwith" "demo (ignore_case) without change: $without" > "$D/confirmed.txt"
  echo "CONFIRMED -> $D"
else echo "NOT CONFIRMED"; exit 1; fi
