#!/usr/bin/env bash
# seed_matrix.sh [seed-id ...] : run every seeded change (default: all) against the quick check of
# its own property and of closely related properties; write seeded/RESULTS.tsv (one line per
# seed x check) which tools/seed_meta.py turns into meta.json files and a table for DESIGN.md.
set -u
cd /verif
declare -A ALSO=( [C01]="" [C02]="C17" [C03]="C01" [C04]="" [C05]="C02" [C06]="C02" [C07]="C02" [C08]="C02" [C09]="C02" [C10]="C02" [C11]="" [C12]="" [C13]="" [C14]="" [C15]="" [C16]="C01" [C17]="C02" )
ids=("$@")
if [ ${#ids[@]} -eq 0 ]; then ids=($(ls seeded | grep -E '^C[0-9]+-')); fi
touch seeded/RESULTS.tsv
for id in "${ids[@]}"; do
  prop="${id%%-*}"
  grep -v "^$id	" seeded/RESULTS.tsv > seeded/RESULTS.tsv.tmp; mv seeded/RESULTS.tsv.tmp seeded/RESULTS.tsv
  for c in $prop ${ALSO[$prop]}; do
    line=$(tools/seedtest.sh "$id" "$c" | tail -1)
    code=$(echo "$line" | sed -n 's/.* exit=\([0-9]*\) .*/\1/p')
    what=$(echo "$line" | sed 's/.*:: *//' | sed 's/^what: //' | cut -c1-200 | tr '\t' ' ')
    printf '%s\t%s\t%s\t%s\n' "$id" "$c" "${code:-?}" "$what" >> seeded/RESULTS.tsv
    echo "$id $c exit=${code:-?}"
  done
done
sort -o seeded/RESULTS.tsv seeded/RESULTS.tsv
